// xform: builds the go-build overlay that plants the simulator's seams into
// the drand tree found at -repo (and into bbolt), without touching either.
//
// Rules (see DESIGN.md 2.2):
//
//	R1  sync.Mutex / sync.RWMutex  -> simsync.Mutex / simsync.RWMutex
//	R1b the same in go.etcd.io/bbolt (private copy of simsync)
//	R2  rand.Perm(                 -> simrt.Perm(           (math/rand only)
//	R3  net.Listen( / NewGrpcClient( / grpc.UnaryInterceptor( / grpc.StreamInterceptor(
//	    in internal/net            -> verif* shims (added file zz_verif.go)
//	R5  simrt.Yield(site) before channel sends / selects in statement position
//	R8  os.Stdout -> verifStdout()   in common/log: loggers built with no explicit output are captured too
//	R7  os.Create( / os.OpenFile( / os.Rename( -> simrt.Create( / simrt.OpenFile( / simrt.Rename(  and
//	    toml.NewEncoder(w) -> toml.NewEncoder(simrt.W(w))   in common/key and internal/fs: the file-level
//	    steps of writing a key, group or share file become crash points
//	    and first in every `go func` body
//	R6  added files with exported accessors (from -extra dir)
//
// All edits are byte splices at positions found on the AST, so every original
// line keeps its line number. Stdlib only.
package main

import (
	"encoding/json"
	"flag"
	"fmt"
	"go/ast"
	"go/parser"
	"go/token"
	"os"
	"path/filepath"
	"sort"
	"strconv"
	"strings"
)

type edit struct {
	off  int // byte offset in the original file
	del  int // bytes to delete
	text string
}

type counts map[string]int

var (
	repo     = flag.String("repo", "/repo", "drand tree")
	out      = flag.String("out", "", "output directory")
	bbolt    = flag.String("bbolt", "", "bbolt module directory")
	rt       = flag.String("rt", "", "directory holding simsync/ and simrt/ sources")
	extra    = flag.String("extra", "", "directory with files to add: <pkgdir with / as __>__<name>.go")
	modpath  = "github.com/drand/drand/v2"
	r1dirs   = []string{"internal/core", "internal/dkg", "internal/chain", "internal/util", "internal/net", "internal/metrics", "crypto/vault", "handler/http", "common/key", "internal/fs"}
	r5dirs   = []string{"internal/chain/beacon", "internal/core", "internal/dkg", "handler/http"}
	hits     = counts{}
	overlay  = map[string]string{}
	required = map[string]int{"R3.Listen": 4, "R3.NewGrpcClient": 3, "R3.UnaryInterceptor": 1, "R3.StreamInterceptor": 1, "R4.NewDKGStore": 1, "R4.NewBoltStore": 1}
)

func main() {
	flag.Parse()
	if *out == "" || *rt == "" {
		fmt.Fprintln(os.Stderr, "usage: xform -repo DIR -out DIR -rt DIR [-bbolt DIR] [-extra DIR]")
		os.Exit(2)
	}
	absOut, err0 := filepath.Abs(*out)
	must(err0)
	*out = absOut
	must(os.MkdirAll(*out, 0o755))
	root, err := filepath.Abs(*repo)
	must(err)

	// drand tree
	must(filepath.Walk(root, func(p string, fi os.FileInfo, err error) error {
		if err != nil {
			return err
		}
		rel, _ := filepath.Rel(root, p)
		if fi.IsDir() {
			if strings.HasPrefix(fi.Name(), ".") && p != root {
				return filepath.SkipDir
			}
			return nil
		}
		if !strings.HasSuffix(p, ".go") || strings.HasSuffix(p, "_test.go") {
			return nil
		}
		dir := filepath.ToSlash(filepath.Dir(rel))
		inR1 := under(dir, r1dirs)
		inR5 := under(dir, r5dirs)
		isNet := dir == "internal/net" || dir == "internal/metrics"
		isFiles := dir == "common/key" || dir == "internal/fs" || dir == "common/log"
		if !inR1 && !inR5 && !isNet && !isFiles {
			return nil
		}
		src, err := os.ReadFile(p)
		if err != nil {
			return err
		}
		res, changed, err := transform(p, filepath.ToSlash(rel), src, modpath+"/zsimsync", inR1, true, isNet, inR5)
		if err != nil {
			return fmt.Errorf("%s: %w", rel, err)
		}
		if changed {
			emit(p, res)
		}
		return nil
	}))
	// runtime packages inside the drand module
	addFile(filepath.Join(root, "zsimsync", "simsync.go"), filepath.Join(*rt, "simsync", "simsync.go"))
	addFile(filepath.Join(root, "zsimrt", "simrt.go"), filepath.Join(*rt, "simrt", "simrt.go"))

	// bbolt: GOMODCACHE files may not be overlaid, so a private transformed copy of
	// the module is written to <out>/bbolt and the harness go.mod replaces the
	// module with it
	if *bbolt != "" {
		dst := filepath.Join(*out, "bbolt")
		must(os.RemoveAll(dst))
		must(filepath.Walk(*bbolt, func(p string, fi os.FileInfo, err error) error {
			if err != nil {
				return err
			}
			rel, _ := filepath.Rel(*bbolt, p)
			if fi.IsDir() {
				if rel == "cmd" || rel == "tests" || rel == "scripts" || strings.HasPrefix(rel, ".") && rel != "." {
					return filepath.SkipDir
				}
				return os.MkdirAll(filepath.Join(dst, rel), 0o755)
			}
			if strings.HasSuffix(p, "_test.go") {
				return nil
			}
			if !strings.HasSuffix(p, ".go") && fi.Name() != "go.mod" {
				return nil
			}
			src, err := os.ReadFile(p)
			if err != nil {
				return err
			}
			if strings.HasSuffix(p, ".go") && filepath.Dir(rel) == "." {
				res, changed, err := transform(p, "bbolt/"+rel, src, "go.etcd.io/bbolt/zsimsync", true, false, false, false)
				if err != nil {
					return err
				}
				if changed {
					src = res
				}
			}
			return os.WriteFile(filepath.Join(dst, rel), src, 0o644)
		}))
		must(os.MkdirAll(filepath.Join(dst, "zsimsync"), 0o755))
		b, err := os.ReadFile(filepath.Join(*rt, "simsync", "simsync.go"))
		must(err)
		must(os.WriteFile(filepath.Join(dst, "zsimsync", "simsync.go"), b, 0o644))
	}

	// added files
	if *extra != "" {
		ents, err := os.ReadDir(*extra)
		must(err)
		for _, e := range ents {
			name := e.Name()
			if !strings.HasSuffix(name, ".go.txt") {
				continue
			}
			parts := strings.Split(strings.TrimSuffix(name, ".txt"), "__")
			target := filepath.Join(append([]string{root}, parts...)...)
			addFile(target, filepath.Join(*extra, name))
			hits["R6.files"]++
		}
	}

	for k, n := range required {
		if hits[k] < n {
			fmt.Fprintf(os.Stderr, "xform: anchor %s found %d times, need %d\n", k, hits[k], n)
			os.Exit(3)
		}
	}
	ob, _ := json.MarshalIndent(map[string]any{"Replace": overlay}, "", " ")
	must(os.WriteFile(filepath.Join(*out, "overlay.json"), ob, 0o644))
	hb, _ := json.MarshalIndent(hits, "", " ")
	must(os.WriteFile(filepath.Join(*out, "xform_hits.json"), hb, 0o644))
}

func under(dir string, set []string) bool {
	for _, s := range set {
		if dir == s || strings.HasPrefix(dir, s+"/") {
			return true
		}
	}
	return false
}

func must(err error) {
	if err != nil {
		fmt.Fprintln(os.Stderr, "xform:", err)
		os.Exit(2)
	}
}

func emit(orig string, content []byte) {
	name := strings.ReplaceAll(strings.TrimPrefix(orig, "/"), "/", "__")
	dst := filepath.Join(*out, name)
	must(os.WriteFile(dst, content, 0o644))
	overlay[orig] = dst
}

func addFile(target, src string) {
	b, err := os.ReadFile(src)
	must(err)
	emit(target, b)
}

// importName returns the local name under which path is imported ("" if not).
func importName(f *ast.File, path string) string {
	for _, im := range f.Imports {
		p, _ := strconv.Unquote(im.Path.Value)
		if p != path {
			continue
		}
		if im.Name != nil {
			return im.Name.Name
		}
		if i := strings.LastIndex(path, "/"); i >= 0 {
			return path[i+1:]
		}
		return path
	}
	return ""
}

func transform(path, rel string, src []byte, simsyncPath string, r1, r2, r3, r5 bool) ([]byte, bool, error) {
	r4 := strings.HasPrefix(rel, "internal/core/")
	r7 := strings.HasPrefix(rel, "common/key/") || strings.HasPrefix(rel, "internal/fs/")
	fset := token.NewFileSet()
	f, err := parser.ParseFile(fset, path, src, parser.ParseComments|parser.SkipObjectResolution)
	if err != nil {
		return nil, false, err
	}
	off := func(p token.Pos) int { return fset.Position(p).Offset }
	var edits []edit
	needSimsync, needSimrt := false, false
	keep := map[string]string{} // import local name -> a dummy use to keep it referenced

	syncName := importName(f, "sync")
	randName := importName(f, "math/rand")
	netName := importName(f, "net")
	grpcName := importName(f, "google.golang.org/grpc")
	osName := importName(f, "os")
	tomlName := importName(f, "github.com/BurntSushi/toml")

	isSel := func(e ast.Expr, pkg, sel string) (*ast.SelectorExpr, bool) {
		s, ok := e.(*ast.SelectorExpr)
		if !ok || pkg == "" {
			return nil, false
		}
		id, ok := s.X.(*ast.Ident)
		if !ok || id.Name != pkg || s.Sel.Name != sel {
			return nil, false
		}
		return s, true
	}

	// names shadowing package identifiers are not handled: drand has none, and a
	// miscompiled overlay fails the build (exit 2), never a check.
	ast.Inspect(f, func(n ast.Node) bool {
		switch x := n.(type) {
		case *ast.SelectorExpr:
			if strings.HasPrefix(rel, "common/log/") {
				if sel, ok := isSel(x, osName, "Stdout"); ok {
					edits = append(edits, edit{off(sel.Pos()), off(sel.End()) - off(sel.Pos()), "verifStdout()"})
					keep[osName] = "var _ = %s.Getpid"
					hits["R8.Stdout"]++
				}
			}
			if r1 && syncName != "" {
				for _, typ := range []string{"Mutex", "RWMutex", "Once"} {
					if s, ok := isSel(x, syncName, typ); ok {
						edits = append(edits, edit{off(s.X.Pos()), len(syncName), "simsync"})
						needSimsync = true
						keep[syncName] = "var _ %s.WaitGroup"
						hits["R1."+typ]++
					}
				}
			}
		case *ast.CallExpr:
			if r2 && randName != "" {
				if s, ok := isSel(x.Fun, randName, "Perm"); ok {
					edits = append(edits, edit{off(s.X.Pos()), len(randName), "simrt"})
					needSimrt = true
					keep[randName] = "var _ = %s.Int"
					hits["R2.Perm"]++
				}
			}
			if r7 {
				for _, fn := range []string{"Create", "OpenFile", "Rename", "Remove"} {
					if sel, ok := isSel(x.Fun, osName, fn); ok {
						edits = append(edits, edit{off(sel.X.Pos()), len(osName), "simrt"})
						needSimrt = true
						keep[osName] = "var _ = %s.Getpid"
						hits["R7."+fn]++
					}
				}
				if _, ok := isSel(x.Fun, tomlName, "NewEncoder"); ok && len(x.Args) == 1 {
					edits = append(edits, edit{off(x.Args[0].Pos()), 0, "simrt.W("}, edit{off(x.Args[0].End()), 0, ")"})
					needSimrt = true
					hits["R7.NewEncoder"]++
				}
			}
			if r4 {
				// R4: the stores the daemon opens itself are handed to the simulator's decorators
				if s, ok := isSel(x.Fun, importName(f, "github.com/drand/drand/v2/internal/dkg"), "NewDKGStore"); ok {
					edits = append(edits, edit{off(s.Pos()), off(s.End()) - off(s.Pos()), "verifNewDKGStore"})
					keep[importName(f, "github.com/drand/drand/v2/internal/dkg")] = "var _ = %s.NewDKGStore"
					hits["R4.NewDKGStore"]++
				}
				if s, ok := isSel(x.Fun, importName(f, "github.com/drand/drand/v2/internal/chain/memdb"), "NewStore"); ok && len(x.Args) == 1 {
					// (the in-memory store has no folder of its own: the node is identified by the folder its bolt store would have)
					edits = append(edits, edit{off(s.Pos()), off(s.End()) - off(s.Pos()), "verifNewMemStore"}, edit{off(x.Lparen) + 1, 0, "bp.opts.DBFolder(beaconName), "})
					keep[importName(f, "github.com/drand/drand/v2/internal/chain/memdb")] = "var _ = %s.NewStore"
					hits["R4.NewMemStore"]++
				}
				if s, ok := isSel(x.Fun, importName(f, "github.com/drand/drand/v2/internal/chain/boltdb"), "NewBoltStore"); ok {
					edits = append(edits, edit{off(s.Pos()), off(s.End()) - off(s.Pos()), "verifNewBoltStore"})
					keep[importName(f, "github.com/drand/drand/v2/internal/chain/boltdb")] = "var _ = %s.NewBoltStore"
					hits["R4.NewBoltStore"]++
				}
			}
			if r3 {
				if s, ok := isSel(x.Fun, netName, "Listen"); ok {
					edits = append(edits, edit{off(s.Pos()), off(s.End()) - off(s.Pos()), "verifListen"})
					keep[netName] = "var _ %s.Listener"
					hits["R3.Listen"]++
				}
				if id, ok := x.Fun.(*ast.Ident); ok && id.Name == "NewGrpcClient" {
					edits = append(edits, edit{off(id.Pos()), len(id.Name), "verifNewClient"})
					hits["R3.NewGrpcClient"]++
				}
				if s, ok := isSel(x.Fun, grpcName, "UnaryInterceptor"); ok {
					edits = append(edits, edit{off(s.Pos()), off(s.End()) - off(s.Pos()), "verifUnaryInterceptor"})
					hits["R3.UnaryInterceptor"]++
				}
				if s, ok := isSel(x.Fun, grpcName, "StreamInterceptor"); ok {
					edits = append(edits, edit{off(s.Pos()), off(s.End()) - off(s.Pos()), "verifStreamInterceptor"})
					hits["R3.StreamInterceptor"]++
				}
			}
		}
		return true
	})

	if r5 {
		site := func(p token.Pos) string {
			return fmt.Sprintf("%s:%d", rel, fset.Position(p).Line)
		}
		var visitList func(list []ast.Stmt)
		visitList = func(list []ast.Stmt) {
			for _, st := range list {
				switch s := st.(type) {
				case *ast.SendStmt:
					edits = append(edits, edit{off(s.Pos()), 0, "simrt.Yield(" + strconv.Quote(site(s.Pos())) + "); "})
					needSimrt = true
					hits["R5.send"]++
				case *ast.SelectStmt:
					edits = append(edits, edit{off(s.Pos()), 0, "simrt.Yield(" + strconv.Quote(site(s.Pos())) + "); "})
					needSimrt = true
					hits["R5.select"]++
				}
			}
		}
		ast.Inspect(f, func(n ast.Node) bool {
			switch x := n.(type) {
			case *ast.BlockStmt:
				visitList(x.List)
			case *ast.CaseClause:
				visitList(x.Body)
			case *ast.CommClause:
				visitList(x.Body)
			case *ast.GoStmt:
				if fl, ok := x.Call.Fun.(*ast.FuncLit); ok {
					edits = append(edits, edit{off(fl.Body.Lbrace) + 1, 0, " simrt.Yield(" + strconv.Quote("go@"+site(x.Pos())) + "); "})
					needSimrt = true
					hits["R5.go"]++
				}
			}
			return true
		})
		// labelled statements: a label must be followed by its statement, and our
		// prefix would separate `L: select` into `L: simrt.Yield(); select`, which
		// changes what `break L` refers to. Drop edits at labelled positions.
		labelled := map[int]bool{}
		ast.Inspect(f, func(n ast.Node) bool {
			if l, ok := n.(*ast.LabeledStmt); ok {
				labelled[off(l.Stmt.Pos())] = true
			}
			return true
		})
		kept := edits[:0]
		for _, e := range edits {
			if e.del == 0 && labelled[e.off] && strings.HasPrefix(e.text, "simrt.Yield") {
				hits["R5.skipped_labelled"]++
				continue
			}
			kept = append(kept, e)
		}
		edits = kept
	}

	if len(edits) == 0 {
		return nil, false, nil
	}

	// imports: appended to the first import spec's line so that no line moves
	var imps []string
	if needSimsync {
		imps = append(imps, "simsync "+strconv.Quote(simsyncPath))
	}
	if needSimrt {
		imps = append(imps, "simrt "+strconv.Quote(modpath+"/zsimrt"))
	}
	if len(imps) > 0 {
		if len(f.Imports) == 0 {
			return nil, false, fmt.Errorf("no import to attach to")
		}
		first := f.Imports[0]
		grouped := false
		for _, d := range f.Decls {
			if g, ok := d.(*ast.GenDecl); ok && g.Tok == token.IMPORT && g.Pos() <= first.Pos() && first.End() <= g.End() {
				grouped = g.Lparen.IsValid()
			}
		}
		sep := "; "
		if !grouped {
			sep = "; import "
		}
		edits = append(edits, edit{off(first.End()), 0, sep + strings.Join(imps, sep)})
	}
	sort.SliceStable(edits, func(i, j int) bool { return edits[i].off < edits[j].off })
	var b strings.Builder
	pos := 0
	for _, e := range edits {
		if e.off < pos {
			return nil, false, fmt.Errorf("overlapping edits at %d", e.off)
		}
		b.Write(src[pos:e.off])
		b.WriteString(e.text)
		pos = e.off + e.del
	}
	b.Write(src[pos:])
	names := make([]string, 0, len(keep))
	for k := range keep {
		names = append(names, k)
	}
	sort.Strings(names)
	for _, k := range names {
		b.WriteString("\n" + fmt.Sprintf(keep[k], k) + "\n")
	}
	return []byte(b.String()), true, nil
}
