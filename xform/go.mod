module verif/xform

go 1.25
