package zverif

// C10 through the daemon: follow mode on a non-member with a pinned chain hash, and
// check/repair of a store corrupted at rest, both against peer sets mixing honest
// members and liars.

import (
	"strings"
	"bytes"
	"context"
	"encoding/hex"
	"fmt"
	"sort"
	"time"

	"google.golang.org/grpc"
	"google.golang.org/protobuf/proto"

	"github.com/drand/drand/v2/common"
	"github.com/drand/drand/v2/internal/chain"
	"github.com/drand/drand/v2/protobuf/drand"
)

// ---- liars: addresses that are not drand nodes at all but answer like one

type liarEP struct {
	e    *daemonEngine
	kind string
	addr string
}

func (l *liarEP) Unary(ctx context.Context, method string, b []byte) (proto.Message, error) {
	e := l.e
	switch method {
	case MHealth:
		return new(drand.Empty), nil
	case MChainInfo:
		// an honest member's chain info, possibly with one field changed
		for _, n := range e.nodes[:e.sc.N] {
			n.mu.Lock()
			dd := n.dd
			n.mu.Unlock()
			if dd == nil {
				continue
			}
			ci, err := dd.ChainInfo(ctx, &drand.ChainInfoRequest{Metadata: &drand.Metadata{BeaconID: "default"}})
			if err != nil {
				continue
			}
			ci = proto.Clone(ci).(*drand.ChainInfoPacket)
			switch l.kind {
			case "info_period":
				ci.Period++
			case "info_genesis":
				ci.GenesisTime++
			case "info_key":
				ci.PublicKey = append([]byte(nil), ci.PublicKey...)
				ci.PublicKey[len(ci.PublicKey)-1] ^= 1
			}
			e.rec.Count("adv:chaininfo_"+l.kind, 1)
			return ci, nil
		}
		return nil, errRefused
	}
	return nil, unimplemented(method)
}

func (l *liarEP) Stream(ctx context.Context, method string, b []byte, send func(proto.Message) error) error {
	e := l.e
	if method != MSyncChain {
		return unimplemented(method)
	}
	r := new(drand.SyncRequest)
	if err := proto.Unmarshal(b, r); err != nil {
		return err
	}
	cc := e.chains["default"]
	if cc.chain == nil {
		return errRefused
	}
	e.rec.Count("adv:sync_"+l.kind, 1)
	from := r.FromRound
	if from == 0 {
		from = 1
	}
	cur := e.curRound("default")
	mk := func(round uint64) *drand.BeaconPacket {
		return &drand.BeaconPacket{Round: round, Signature: cc.chain.Sig(round), PreviousSignature: cc.chain.Prev(round), Metadata: &drand.Metadata{BeaconID: "default"}}
	}
	forged := func(round uint64, prev []byte) *drand.BeaconPacket {
		p := mk(round)
		p.Signature = append([]byte(nil), p.Signature...)
		p.Signature[len(p.Signature)-1] ^= 1
		if prev != nil {
			p.PreviousSignature = prev
		}
		return p
	}
	switch l.kind {
	case "bad_sig":
		return send(forged(from, nil))
	case "wrong_round":
		if from+1 < cur {
			return send(mk(from + 1))
		}
	case "relabel":
		p := mk(from + 1)
		p.Round = from
		return send(p)
	case "foreign_id":
		p := mk(from)
		p.Metadata.BeaconID = "other"
		return send(p)
	case "garbage":
		return send(&drand.BeaconPacket{Round: from, Signature: []byte{1, 2, 3}, Metadata: &drand.Metadata{BeaconID: "default"}})
	case "resend_forged":
		// a few honest rounds, then an already delivered round again with a forged signature
		// (carrying the previous signature the receiver's head has, as its checks want)
		k := uint64(0)
		for r := from; r < cur && k < 4; r++ {
			if err := send(mk(r)); err != nil {
				return err
			}
			k++
		}
		if k >= 2 {
			last := from + k - 1
			return send(forged(from+k-2, cc.chain.Sig(last)))
		}
	case "stall":
		if from < cur {
			_ = send(mk(from))
		}
		<-ctx.Done()
		return ctx.Err()
	case "close_early":
		if from < cur {
			return send(mk(from))
		}
	}
	return nil
}

// ---- simulated control streams

type progressStream struct {
	grpc.ServerStream
	ctx  context.Context
	last func(*drand.SyncProgress)
}

func (s *progressStream) Context() context.Context { return s.ctx }
func (s *progressStream) Send(p *drand.SyncProgress) error {
	if s.last != nil {
		s.last(p)
	}
	return s.ctx.Err()
}

// ---- chain store tap (the R4 decorator calls it on every Put of a node)

func (e *daemonEngine) onChainPut(n *dNode, b *common.Beacon, err error) {
	if err != nil {
		return
	}
	n.mu.Lock()
	follower, repairing := n.following, n.repairing
	if repairing && b.Round <= n.repairUpTo {
		n.repairPuts = append(n.repairPuts, b.Round)
	}
	last := n.lastFollowPut
	if follower && b.Round != 0 {
		n.lastFollowPut = b.Round
	}
	n.mu.Unlock()
	cc := e.chains["default"]
	if cc.chain == nil || b.Round == 0 {
		return
	}
	// C01: whatever reaches any node's store, by whatever path, is a beacon of the chain
	if msg := cc.chain.CheckBeacon(b.Round, prevFor(cc, b.Round, b.PreviousSig), b.Signature); msg != "" {
		path := "participant"
		if follower {
			path = "follow"
		} else if repairing {
			path = "repair"
		}
		e.rec.Violate("C01", "stored-beacon-not-on-chain", path, "node %s stored: %s", n.addr, msg)
	}
	if follower || repairing {
		e.rec.Count("probe:sync_puts_observed", 1)
		if msg := cc.chain.CheckBeacon(b.Round, prevFor(cc, b.Round, b.PreviousSig), b.Signature); msg != "" {
			mode := "follow"
			if repairing {
				mode = "repair"
			}
			e.rec.Violate("C10", "synced-beacon-not-on-chain", mode, "node %s (%s) stored: %s", n.addr, mode, msg)
		}
		// (a follower starts from an empty store: its first beacon is round 1)
		if follower && b.Round != last+1 {
			e.rec.Violate("C10", "store-written-out-of-chain-order", "follow", "follower %s wrote round %d after round %d", n.addr, b.Round, last)
		}
	}
}

// ---- follow

func (e *daemonEngine) follow(n *dNode, upTo uint64, peers []string, wrongHash bool) {
	n.mu.Lock()
	dd := n.dd
	n.following = true
	n.mu.Unlock()
	if dd == nil {
		return
	}
	hash, _ := hex.DecodeString(e.chainHashHex("default"))
	if wrongHash {
		hash = append([]byte(nil), hash...)
		hash[0] ^= 0xff
	}
	ctx, cancel := serverCtx("operator.sim:1")
	n.followCancel = cancel
	started := time.Now()
	// which chain-info requests of the follower were answered by a node of the chain (as opposed to a liar)
	e.w.OnAnswer = func(from, to, method string, ok bool) {
		if !ok || from != n.addr || method != MChainInfo {
			return
		}
		for _, m := range e.nodes {
			if m.addr == to && m.idx < e.sc.N {
				n.mu.Lock()
				n.infoFromMembers++
				n.mu.Unlock()
			}
		}
	}
	e.rec.Ev("follow", n.addr, "upTo=%d peers=%v wrongHash=%v", upTo, peers, wrongHash)
	e.rec.Count("probe:follow_started", 1)
	err := dd.StartFollowChain(&drand.StartSyncRequest{Nodes: peers, UpTo: upTo, Metadata: &drand.Metadata{BeaconID: "default", ChainHash: hash}},
		&progressStream{ctx: ctx})
	e.rec.Ev("follow_end", n.addr, "err=%v after %s", err, time.Since(started))
	n.mu.Lock()
	n.followErr, n.followEnded = err, true
	n.mu.Unlock()
	if wrongHash && err == nil {
		e.rec.Violate("C10", "followed-a-chain-it-did-not-pin", "hash", "follower %s accepted peers whose chain info does not hash to the pinned value", n.addr)
	}
}

// checkFollower: bounded convergence when an honest peer is reachable.
func (e *daemonEngine) checkFollower(n *dNode, plan *FollowPlan, healAt time.Time) {
	n.mu.Lock()
	last, ended, ferr := n.lastFollowPut, n.followEnded, n.followErr
	infoOK := n.infoFromMembers
	n.mu.Unlock()
	if plan.WrongHash {
		if last != 0 {
			e.rec.Violate("C10", "followed-a-chain-it-did-not-pin", "stored", "follower %s stored round %d from a chain whose info does not hash to the pinned value", n.addr, last)
		}
		return
	}
	honest := 0
	for _, p := range plan.Peers {
		if p < e.sc.N && e.nodes[p].up {
			honest++
		}
	}
	if honest == 0 {
		return
	}
	due := e.curRound("default")
	target := due - 1
	if plan.UpTo != 0 {
		// up_to is an upper limit: the daemon stops at min(up_to, the round that was current when it started)
		target = refCurrentRound(e.start.Unix()+plan.AtMs/1000, e.sc.PeriodS, e.chains["default"].genesis.Unix())
		if plan.UpTo < target {
			target = plan.UpTo
		}
	}
	elapsed := time.Since(e.start.Add(time.Duration(plan.AtMs) * time.Millisecond))
	bound := time.Duration(len(plan.Peers)+len(plan.Liars)+2)*(2*e.period()+time.Second) + 4*e.period()
	if since := time.Since(healAt); since < elapsed {
		elapsed = since
	}
	e.rec.Count("probe:follow_checked", 1)
	if elapsed >= bound && last+1 < target {
		facts := "behind"
		if ended && ferr != nil && infoOK == 0 && (strings.Contains(ferr.Error(), "unable to get chain info") || strings.Contains(ferr.Error(), "chain hash mismatch")) {
			// no node of the chain got its chain info through to the follower (requests lost or timed out); the
			// call returned an error to the operator before any sync started
			facts = "gave-up-when-no-peer-answered-the-chain-info-request"
		} else if plan.InfoLiarLast {
			facts = "last-peer-gives-another-chain-info"
		} else if !ended {
			facts = "still-running-but-stuck"
			for _, l := range plan.Liars {
				if l == "stall" {
					// the follow call is still open on a peer that stopped sending
					facts = "still-running-on-a-peer-that-stalls"
				}
			}
		}
		e.rec.Violate("C10", "follow-did-not-converge", facts, "follower %s has stored up to round %d, target %d, %s after it started with %d honest reachable peers (ended=%v err=%v)", n.addr, last, target, elapsed, honest, ended, ferr)
	}
}

// ---- check / repair

func (e *daemonEngine) checkChain(n *dNode, plan *CheckPlan) {
	n.mu.Lock()
	dd, base := n.dd, n.chainBase
	n.mu.Unlock()
	cc := e.chains["default"]
	if dd == nil || base == nil || cc.chain == nil {
		return
	}
	ctx := context.Background()
	last, err := base.Last(ctx)
	if err != nil || last.Round < 6 {
		return
	}
	// corrupt the store at rest (the beacon keeps running: only rounds well below the head)
	r := NewRng(H64(e.sc.Seed, "corrupt", n.idx))
	want := map[uint64]bool{}
	mem := e.sc.Backend == "memdb"
	// (the in-memory ring is not corrupted: every round it has forgotten already "cannot be read back", and a ring
	// cannot take them back; what is checked there is that check and repair leave the window whole - C01, C02)
	for k := 0; k < plan.Corrupt && !mem; k++ {
		round := uint64(r.Range(1, int(last.Round)-3))
		if want[round] {
			continue
		}
		switch r.Intn(3) {
		case 0:
			if err := base.Del(ctx, round); err != nil {
				continue
			}
			if cc.ref.Chained && e.sc.Backend == "bolt" {
				want[round+1] = true // trimmed store: the next round can no longer be read back either
			}
		default:
			sig := append([]byte(nil), cc.chain.Sig(round)...)
			sig[len(sig)-1] ^= 1
			if err := base.Put(ctx, &common.Beacon{Round: round, Signature: sig, PreviousSig: cc.chain.Prev(round)}); err != nil {
				continue
			}
			if cc.ref.Chained {
				want[round+1] = true // its successor's previous signature is now wrong as well
			}
		}
		want[round] = true
	}
	var wantList []uint64
	for k := range want {
		if k <= last.Round-1 {
			wantList = append(wantList, k)
		}
	}
	sort.Slice(wantList, func(i, j int) bool { return wantList[i] < wantList[j] })
	upTo := last.Round - 1
	e.rec.Ev("check_chain", n.addr, "corrupted=%v upTo=%d", wantList, upTo)
	e.rec.Count("fault:store_corrupted_at_rest", 1)
	var peers []string
	for _, p := range plan.Peers {
		peers = append(peers, e.nodes[p].addr)
	}
	for _, l := range plan.Liars {
		peers = append(peers, e.liarAddr(l))
	}
	reported := uint64(0)
	gotReport := false
	n.mu.Lock()
	n.repairing, n.repairPuts, n.repairUpTo = true, nil, upTo
	n.mu.Unlock()
	sctx, cancel := serverCtx("operator.sim:1")
	defer cancel()
	cerr := dd.StartCheckChain(&drand.StartSyncRequest{Nodes: peers, UpTo: upTo, Metadata: &drand.Metadata{BeaconID: "default"}},
		&progressStream{ctx: sctx, last: func(p *drand.SyncProgress) {
			if p.Current == 0 && !gotReport {
				reported, gotReport = p.Target, true
			}
		}})
	n.mu.Lock()
	n.repairing = false
	puts := append([]uint64(nil), n.repairPuts...)
	n.mu.Unlock()
	e.rec.Count("probe:check_chain_runs", 1)
	e.rec.Ev("check_chain_end", n.addr, "err=%v reported=%d puts=%v", cerr, reported, puts)
	if mem {
		// the ring right after the repair: still its newest rounds, one after the other
		if bp := e.bp(n, "default"); bp != nil && bp.VerifHandler() != nil {
			var rounds []uint64
			_ = bp.VerifHandler().Store().Cursor(chainCtxFor(cc), func(ctx context.Context, c chain.Cursor) error {
				for b, err := c.First(ctx); b != nil && err == nil; b, err = c.Next(ctx) {
					rounds = append(rounds, b.Round)
				}
				return nil
			})
			if len(rounds) > 1 && rounds[0] == 0 && rounds[1] != 1 {
				rounds = rounds[1:]
			}
			for k := 1; k < len(rounds); k++ {
				if rounds[k] != rounds[k-1]+1 {
					e.rec.Violate("C02", "gap-in-stored-chain", "ring-after-repair", "node %s: after the chain check its in-memory ring holds %v", n.addr, rounds)
					break
				}
			}
			e.rec.Count("probe:ring_scanned_after_repair", 1)
		}
	}
	if !gotReport || mem {
		return
	}
	if int(reported) != len(wantList) {
		e.rec.Violate("C10", "check-reports-wrong-set", "count", "node %s: %d rounds cannot be read back or do not verify (%v), the check reported %d", n.addr, len(wantList), wantList, reported)
	}
	if cerr != nil {
		return // peers failed: nothing promised about the repair
	}
	// repair rewrote exactly the reported rounds
	sort.Slice(puts, func(i, j int) bool { return puts[i] < puts[j] })
	uniq := puts[:0]
	for i, p := range puts {
		if i == 0 || p != puts[i-1] {
			uniq = append(uniq, p)
		}
	}
	if fmt.Sprint(uniq) != fmt.Sprint(wantList) {
		e.rec.Violate("C10", "repair-rewrote-another-set", "set", "node %s: corrupted rounds %v, repair wrote %v", n.addr, wantList, uniq)
	}
	for _, round := range wantList {
		b, err := base.Get(chainCtxFor(cc), round)
		if err != nil || !bytes.Equal(b.Signature, cc.chain.Sig(round)) {
			e.rec.Violate("C10", "repair-left-a-bad-round", "after", "node %s: round %d is still wrong after the repair (%v)", n.addr, round, err)
			break
		}
	}
}

func chainCtxFor(cc *chainCtx) context.Context {
	ctx := context.Background()
	if cc.ref.Chained {
		ctx = chain.SetPreviousRequiredOnContext(ctx)
	}
	return ctx
}

func (e *daemonEngine) liarAddr(kind string) string { return "liar-" + kind + ".sim:443" }

type FollowPlan struct {
	AtMs         int64    `json:"at_ms"`
	Node         int      `json:"node"`
	UpTo         uint64   `json:"up_to"`
	Peers        []int    `json:"peers"`
	Liars        []string `json:"liars,omitempty"`
	Order        []int    `json:"order,omitempty"` // permutation of peers+liars as handed to the daemon
	WrongHash    bool     `json:"wrong_hash,omitempty"`
	InfoLiarLast bool     `json:"info_liar_last,omitempty"`
	KeyScheme    string `json:"key_scheme,omitempty"` // scheme of the follower's own key pair when it is not the chain's
}

type CheckPlan struct {
	AtMs    int64    `json:"at_ms"`
	Node    int      `json:"node"`
	Corrupt int      `json:"corrupt"`
	Peers   []int    `json:"peers"`
	Liars   []string `json:"liars,omitempty"`
}
