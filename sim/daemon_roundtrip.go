package zverif

// C20 inside the simulation: every value the simulated histories make the daemons write
// or send (group files and shares rewritten by each epoch change, every key-generation
// record of every status, group and chain-info packets, stored beacons) is read back
// through the real decoder straight away and compared field by field with the value
// handed to the encoder. The comparison is the harness's own: it walks the struct
// fields by reflection, so a field the hand-maintained mirrors forget is still compared.

import (
	"bytes"
	"context"
	"encoding/hex"
	"fmt"
	"reflect"
	"time"

	"github.com/BurntSushi/toml"
	"github.com/drand/drand/v2/common"
	pubchain "github.com/drand/drand/v2/common/chain"
	"github.com/drand/drand/v2/common/key"
	"github.com/drand/drand/v2/internal/dkg"
	pdkg "github.com/drand/drand/v2/protobuf/dkg"
	"github.com/drand/drand/v2/protobuf/drand"
	"google.golang.org/protobuf/proto"
)

func shareDiff(a, b *key.Share) string {
	switch {
	case a == nil || b == nil:
		if a == nil && b == nil {
			return ""
		}
		return "one share is missing"
	case (a.Scheme == nil) != (b.Scheme == nil) || a.Scheme != nil && a.Scheme.Name != b.Scheme.Name:
		return "scheme"
	case (a.Share == nil) != (b.Share == nil):
		return "private part missing"
	case a.Share != nil && (a.Share.I != b.Share.I || !a.Share.V.Equal(b.Share.V)):
		return "private part"
	case len(a.Commits) != len(b.Commits):
		return fmt.Sprintf("commitments: %d vs %d", len(a.Commits), len(b.Commits))
	}
	for i := range a.Commits {
		if !a.Commits[i].Equal(b.Commits[i]) {
			return fmt.Sprintf("commitment %d", i)
		}
	}
	return ""
}

func groupDiffFull(a, b *key.Group) string {
	if a == nil || b == nil {
		if a == nil && b == nil {
			return ""
		}
		return "one group is missing"
	}
	if a.PublicKey == nil || b.PublicKey == nil {
		if (a.PublicKey == nil) != (b.PublicKey == nil) {
			return "public_key presence"
		}
		ca, cb := *a, *b
		pk := &key.DistPublic{}
		ca.PublicKey, cb.PublicKey = pk, pk
		return groupDiffFull(&ca, &cb)
	}
	if d := groupDiff(a, b); d != "" {
		return d
	}
	for i := range a.Nodes {
		x := a.Nodes[i]
		y := b.Find(x.Identity)
		if y == nil {
			return fmt.Sprintf("member %s lost", x.Addr)
		}
		if !bytes.Equal(x.Signature, y.Signature) {
			return fmt.Sprintf("member %s: signature", x.Addr)
		}
		if (x.Scheme == nil) != (y.Scheme == nil) || x.Scheme != nil && x.Scheme.Name != y.Scheme.Name {
			return fmt.Sprintf("member %s: scheme", x.Addr)
		}
	}
	if !bytes.Equal(a.Hash(), b.Hash()) {
		return "hash"
	}
	return ""
}

func participantsDiff(a, b []*pdkg.Participant) string {
	if len(a) != len(b) {
		return fmt.Sprintf("%d vs %d entries", len(a), len(b))
	}
	for i := range a {
		if !proto.Equal(a[i], b[i]) {
			return fmt.Sprintf("entry %d", i)
		}
	}
	return ""
}

// dbStateDiff compares every field of the record (by reflection over the struct, so that
// a field added later is compared too).
func dbStateDiff(a, b *dkg.DBState) string {
	if a == nil || b == nil {
		if a == nil && b == nil {
			return ""
		}
		return "record missing"
	}
	va, vb := reflect.ValueOf(*a), reflect.ValueOf(*b)
	for i := 0; i < va.NumField(); i++ {
		name := va.Type().Field(i).Name
		fa, fb := va.Field(i).Interface(), vb.Field(i).Interface()
		d := ""
		switch x := fa.(type) {
		case time.Time:
			if x.Unix() != fb.(time.Time).Unix() {
				d = fmt.Sprintf("%v vs %v", x, fb)
			}
		case *pdkg.Participant:
			y := fb.(*pdkg.Participant)
			if (x == nil) != (y == nil) || x != nil && !proto.Equal(x, y) {
				d = "differs"
			}
		case []*pdkg.Participant:
			d = participantsDiff(x, fb.([]*pdkg.Participant))
		case *key.Group:
			d = groupDiffFull(x, fb.(*key.Group))
		case *key.Share:
			d = shareDiff(x, fb.(*key.Share))
		case []byte:
			if !bytes.Equal(x, fb.([]byte)) {
				d = "differs"
			}
		default:
			if !reflect.DeepEqual(fa, fb) {
				d = fmt.Sprintf("%v vs %v", fa, fb)
			}
		}
		if d != "" {
			return name + ": " + d
		}
	}
	return ""
}

func headOf(s string) string {
	for i, c := range s {
		if c == ':' {
			return s[:i]
		}
	}
	return s
}

// rtGroupFile: called after a group was written to the node's key store.
func (e *daemonEngine) rtGroupFile(n *dNode, base, id string, g *key.Group) {
	e.rec.Count("probe:c20_group_file_readback", 1)
	got, err := key.NewFileStore(base, id).LoadGroup()
	if err != nil {
		e.rec.Violate("C20", "written-value-not-readable", "group file", "node %s: the group file just written (epoch with %d members, threshold %d) cannot be read back: %v", n.addr, len(g.Nodes), g.Threshold, err)
		return
	}
	if d := groupDiffFull(g, got); d != "" {
		e.rec.Violate("C20", "readback-differs", "group file/"+headOf(d), "node %s: the group file read back differs from the group written: %s", n.addr, d)
	}
}

func (e *daemonEngine) rtShareFile(n *dNode, base, id string, sh *key.Share) {
	e.rec.Count("probe:c20_share_file_readback", 1)
	got, err := key.NewFileStore(base, id).LoadShare()
	if err != nil {
		e.rec.Violate("C20", "written-value-not-readable", "share file", "node %s: the share just written (%d commitments) cannot be read back: %v", n.addr, len(sh.Commits), err)
		return
	}
	if d := shareDiff(sh, got); d != "" {
		e.rec.Violate("C20", "readback-differs", "share file/"+headOf(d), "node %s: the share read back differs from the share written: %s", n.addr, d)
	}
}

// rtDKG: called after a key-generation record was written.
func (e *daemonEngine) rtDKG(n *dNode, s dkg.Store, finished bool, id string, st *dkg.DBState) {
	e.rec.Count("probe:c20_dkg_record_readback", 1)
	e.rec.Count("probe:c20_dkg_record_status:"+st.State.String(), 1)
	get, what := s.GetCurrent, "latest record"
	if finished {
		get, what = s.GetFinished, "completed record"
	}
	for pass := 0; pass < 2; pass++ {
		got, err := get(id)
		if err != nil || got == nil {
			e.rec.Violate("C20", "written-value-not-readable", "dkg "+what, "node %s: the %s just written (epoch %d, %s) cannot be read back: %v", n.addr, what, st.Epoch, st.State, err)
			return
		}
		if d := dbStateDiff(st, got); d != "" {
			e.rec.Violate("C20", "readback-differs", "dkg "+what+"/"+headOf(d), "node %s: the %s read back (epoch %d, %s) differs from what was written: %s", n.addr, what, st.Epoch, st.State, d)
			return
		}
		if !finished {
			return
		}
		// a completed record is also the latest one
		get, what = s.GetCurrent, "latest record after completion"
	}
}

// rtWire: the group and chain information a running node hands out, decoded the way a receiver does.
func (e *daemonEngine) rtWire(n *dNode, id string, g *key.Group) {
	n.mu.Lock()
	dd := n.dd
	n.mu.Unlock()
	if dd == nil || g == nil {
		return
	}
	ctx := context.Background()
	e.rec.Count("probe:c20_group_packet_decoded", 1)
	pkt, err := dd.GroupFile(ctx, &drand.GroupRequest{Metadata: &drand.Metadata{BeaconID: id}})
	if err == nil {
		raw, _ := proto.Marshal(pkt)
		rcv := new(drand.GroupPacket)
		_ = proto.Unmarshal(raw, rcv)
		got, derr := key.GroupFromProto(rcv, nil)
		if derr != nil {
			idx := ""
			for _, nd := range g.Nodes {
				idx += fmt.Sprintf("%d ", nd.Index)
			}
			e.rec.Violate("C20", "sent-value-not-decodable", "group packet", "node %s: the group it hands out (%d members, share indices %s) is refused by the receiving side: %v", n.addr, len(g.Nodes), idx, derr)
		} else if d := groupDiffFull(g, got); d != "" {
			e.rec.Violate("C20", "received-differs", "group packet/"+headOf(d), "node %s: the group decoded from its group packet differs from the group it holds: %s", n.addr, d)
		}
	}
	want := pubchain.NewChainInfo(g)
	ci, err := dd.ChainInfo(ctx, &drand.ChainInfoRequest{Metadata: &drand.Metadata{BeaconID: id}})
	if err != nil {
		return
	}
	e.rec.Count("probe:c20_chain_info_decoded", 1)
	raw, _ := proto.Marshal(ci)
	rcv := new(drand.ChainInfoPacket)
	_ = proto.Unmarshal(raw, rcv)
	got, derr := pubchain.InfoFromProto(rcv)
	if derr != nil {
		e.rec.Violate("C20", "sent-value-not-decodable", "chain info packet", "node %s: %v", n.addr, derr)
		return
	}
	if d := infoDiff(want, got); d != "" {
		e.rec.Violate("C20", "received-differs", "chain info packet/"+d, "node %s: chain info decoded from the packet differs from the group's: %s", n.addr, d)
	}
	var buf bytes.Buffer
	if err := got.ToJSON(&buf, nil); err == nil {
		back, jerr := pubchain.InfoFromJSON(&buf)
		if jerr != nil {
			e.rec.Violate("C20", "sent-value-not-decodable", "chain info json", "node %s: %v", n.addr, jerr)
		} else if d := infoDiff(want, back); d != "" {
			e.rec.Violate("C20", "received-differs", "chain info json/"+d, "node %s: chain info decoded from JSON differs: %s", n.addr, d)
		}
	}
}

func infoDiff(a, b *pubchain.Info) string {
	switch {
	case !a.PublicKey.Equal(b.PublicKey):
		return "public_key"
	case a.ID != b.ID:
		return "id"
	case a.Period != b.Period:
		return "period"
	case a.Scheme != b.Scheme:
		return "scheme"
	case a.GenesisTime != b.GenesisTime:
		return "genesis_time"
	case !bytes.Equal(a.GenesisSeed, b.GenesisSeed):
		return "genesis_seed"
	case !bytes.Equal(a.Hash(), b.Hash()):
		return "hash"
	}
	return ""
}

// rtBeacon: a beacon that reached a node's store, through its JSON form.
func (e *daemonEngine) rtBeacon(n *dNode, b *common.Beacon) {
	e.rec.Count("probe:c20_beacon_json", 1)
	raw, err := b.Marshal()
	if err != nil {
		e.rec.Violate("C20", "written-value-not-readable", "beacon json", "node %s round %d: %v", n.addr, b.Round, err)
		return
	}
	var got common.Beacon
	if err := got.Unmarshal(raw); err != nil {
		e.rec.Violate("C20", "written-value-not-readable", "beacon json", "node %s round %d: %v", n.addr, b.Round, err)
		return
	}
	if got.Round != b.Round || !bytes.Equal(got.Signature, b.Signature) || !bytes.Equal(got.PreviousSig, b.PreviousSig) {
		e.rec.Violate("C20", "readback-differs", "beacon json", "node %s round %d: %s decoded as round %d %s", n.addr, b.Round, hex.EncodeToString(b.Signature)[:8], got.Round, hex.EncodeToString(got.Signature))
	}
}

// rtReload: after a restart the node must hold exactly the group and share it wrote last.
func (e *daemonEngine) rtReload(n *dNode, id string) {
	bp := e.bp(n, id)
	if bp == nil {
		return
	}
	n.mu.Lock()
	wg, ws := n.lastGroup[id], n.lastShare[id]
	n.mu.Unlock()
	if wg == nil || ws == nil {
		return
	}
	e.rec.Count("probe:c20_reload_after_restart", 1)
	g, sh := bp.VerifGroup(), bp.VerifShare()
	if g == nil || sh == nil {
		e.rec.Violate("C20", "reload-differs", "missing", "node %s restarted: it wrote a group and a share before, it holds group=%v share=%v now", n.addr, g != nil, sh != nil)
		return
	}
	if d := groupDiffFull(wg, g); d != "" {
		e.rec.Violate("C20", "reload-differs", "group/"+headOf(d), "node %s restarted: the group it loaded differs from the one it wrote: %s", n.addr, d)
	}
	if d := shareDiff(ws, sh); d != "" {
		e.rec.Violate("C20", "reload-differs", "share/"+headOf(d), "node %s restarted: the share it loaded differs from the one it wrote: %s", n.addr, d)
	}
}

// rtTamper: the group a run produced, re-encoded with a threshold outside [n/2+1, n] or with a scheme
// nobody knows (what a damaged or edited file / a hostile peer would present), must be refused by
// both decoders.
func (e *daemonEngine) rtTamper(n *dNode, g *key.Group) {
	if g == nil || g.PublicKey == nil {
		return
	}
	nn := len(g.Nodes)
	bad := []int{0, nn / 2, nn + 1}
	if nn/2 >= 1 {
		bad = append(bad, 1)
	}
	decodeTOML := func(gt *key.GroupTOML) error {
		var buf bytes.Buffer
		if err := toml.NewEncoder(&buf).Encode(gt); err != nil {
			return err
		}
		ng := new(key.Group)
		tv := ng.TOMLValue()
		if _, err := toml.Decode(buf.String(), tv); err != nil {
			return err
		}
		return ng.FromTOML(tv)
	}
	// positive control: the untouched encodings decode
	if err := decodeTOML(g.TOML().(*key.GroupTOML)); err != nil {
		e.rec.Violate("C20", "written-value-not-readable", "group toml", "node %s: its own group does not decode from TOML: %v", n.addr, err)
		return
	}
	e.rec.Count("probe:c20_tampered_groups_presented", 1)
	for _, thr := range bad {
		if thr > nn/2 && thr <= nn {
			continue
		}
		gt := g.TOML().(*key.GroupTOML)
		gt.Threshold = thr
		if err := decodeTOML(gt); err == nil {
			e.rec.Violate("C20", "out-of-range-encoding-accepted", "group toml/threshold", "a group file of %d nodes with threshold %d is accepted", nn, thr)
		}
		pk := g.ToProto(common.GetAppVersion())
		pk.Threshold = uint32(thr)
		if _, err := key.GroupFromProto(pk, nil); err == nil {
			e.rec.Violate("C20", "out-of-range-encoding-accepted", "group packet/threshold", "a group packet of %d nodes with threshold %d is accepted", nn, thr)
		}
	}
	gt := g.TOML().(*key.GroupTOML)
	gt.SchemeID = "pedersen-bls-unheard-of"
	if err := decodeTOML(gt); err == nil {
		e.rec.Violate("C20", "out-of-range-encoding-accepted", "group toml/scheme", "a group file naming an unknown scheme is accepted")
	}
	pk := g.ToProto(common.GetAppVersion())
	pk.SchemeID = "pedersen-bls-unheard-of"
	if _, err := key.GroupFromProto(pk, nil); err == nil {
		e.rec.Violate("C20", "out-of-range-encoding-accepted", "group packet/scheme", "a group packet naming an unknown scheme is accepted")
	}
}
