package zverif

import (
	"encoding/json"
	"fmt"
	"io"
	"os"
	"testing"
	"time"
)

// Job is what the driver (bin/check) hands to one worker process.
type Job struct {
	Engine    string `json:"engine"`
	Prop      string `json:"prop"`
	Tier      string `json:"tier"`
	SeedStart uint64 `json:"seed_start"`
	SeedCount int    `json:"seed_count"`
	BudgetS   int    `json:"budget_s"`
	Out       string `json:"out"`        // JSON lines, one RunResult per run
	ReplayDir string `json:"replay_dir"` // where to write replay files
	Replay    string `json:"replay"`     // replay this file instead of generating
	Dump      string `json:"dump"`       // write the event log of (the last) run here
	MaxViol   int    `json:"max_viol"`
	ShrinkS   int    `json:"shrink_s"`
	ViolProp  string `json:"viol_prop"` // hunting: minimise violations of this property instead of Prop
	SeedStride int     `json:"seed_stride"` // default 1
	KnownSigs []string `json:"known_sigs"` // signatures listed in known_findings.json: reported, not minimised
}

type ReplayFile struct {
	Engine    string          `json:"engine"`
	Prop      string          `json:"prop"`
	Seed      uint64          `json:"seed"`
	Violation Violation       `json:"violation"`
	LogHash   string          `json:"log_hash"`
	Events    int             `json:"events"`
	Shrunk    int             `json:"shrink_steps"`
	Scenario  json.RawMessage `json:"scenario"`
}

type engineDef struct {
	gen    func(prop string, seed uint64, tier string) any
	decode func(b []byte) (any, error)
	run    func(t *testing.T, sc any, dump io.Writer) RunResult
	shrink func(sc any) []any
}

var engines = map[string]engineDef{}

func init() {
	engines["beacon"] = engineDef{
		gen: func(prop string, seed uint64, tier string) any { return GenBeacon(prop, seed, tier) },
		decode: func(b []byte) (any, error) {
			sc := new(BeaconScenario)
			return sc, json.Unmarshal(b, sc)
		},
		run: func(t *testing.T, sc any, dump io.Writer) RunResult { return RunBeacon(t, sc.(*BeaconScenario), dump) },
		shrink: func(sc any) []any {
			var out []any
			for _, c := range ShrinkBeacon(sc.(*BeaconScenario)) {
				out = append(out, c)
			}
			return out
		},
	}
}

func init() {
	engines["store"] = engineDef{
		gen: func(prop string, seed uint64, tier string) any { return GenStore(prop, seed, tier) },
		decode: func(b []byte) (any, error) {
			sc := new(StoreScenario)
			return sc, json.Unmarshal(b, sc)
		},
		run: func(t *testing.T, sc any, dump io.Writer) RunResult { return RunStore(t, sc.(*StoreScenario), dump) },
		shrink: func(sc any) []any {
			var out []any
			for _, c := range ShrinkStore(sc.(*StoreScenario)) {
				out = append(out, c)
			}
			return out
		},
	}
}

func init() {
	engines["stream"] = engineDef{
		gen: func(prop string, seed uint64, tier string) any { return GenStream(prop, seed, tier) },
		decode: func(b []byte) (any, error) {
			sc := new(StreamScenario)
			return sc, json.Unmarshal(b, sc)
		},
		run: func(t *testing.T, sc any, dump io.Writer) RunResult { return RunStream(t, sc.(*StreamScenario), dump) },
		shrink: func(sc any) []any {
			var out []any
			for _, c := range ShrinkStream(sc.(*StreamScenario)) {
				out = append(out, c)
			}
			return out
		},
	}
}

func init() {
	engines["daemon"] = engineDef{
		gen: func(prop string, seed uint64, tier string) any { return GenDaemon(prop, seed, tier) },
		decode: func(b []byte) (any, error) {
			sc := new(DaemonScenario)
			return sc, json.Unmarshal(b, sc)
		},
		run: func(t *testing.T, sc any, dump io.Writer) RunResult { return RunDaemon(t, sc.(*DaemonScenario), dump) },
		shrink: func(sc any) []any {
			var out []any
			for _, c := range ShrinkDaemon(sc.(*DaemonScenario)) {
				out = append(out, c)
			}
			return out
		},
	}
}

func violOf(res RunResult, prop, oracle string) *Violation {
	for i := range res.Violations {
		v := &res.Violations[i]
		if v.Prop == prop && (oracle == "" || v.Oracle == oracle) {
			return v
		}
	}
	return nil
}

// TestWorker is the entry point of a worker process: VERIF_JOB names the job file.
func TestWorker(t *testing.T) {
	jf := os.Getenv("VERIF_JOB")
	if jf == "" {
		t.Skip("VERIF_JOB not set")
	}
	jb, err := os.ReadFile(jf)
	if err != nil {
		t.Fatal(err)
	}
	var job Job
	if err := json.Unmarshal(jb, &job); err != nil {
		t.Fatal(err)
	}
	eng, ok := engines[job.Engine]
	if !ok {
		t.Fatalf("unknown engine %q", job.Engine)
	}
	out, err := os.OpenFile(job.Out, os.O_CREATE|os.O_WRONLY|os.O_APPEND, 0o644)
	if err != nil {
		t.Fatal(err)
	}
	defer out.Close()
	emit := func(v any) {
		b, _ := json.Marshal(v)
		out.Write(append(b, '\n'))
	}
	var dump io.Writer
	if job.Dump != "" {
		f, err := os.Create(job.Dump)
		if err == nil {
			defer f.Close()
			dump = f
		}
	}

	if job.Replay != "" {
		rb, err := os.ReadFile(job.Replay)
		if err != nil {
			t.Fatal(err)
		}
		var rf ReplayFile
		if err := json.Unmarshal(rb, &rf); err != nil {
			t.Fatal(err)
		}
		sc, err := eng.decode(rf.Scenario)
		if err != nil {
			t.Fatal(err)
		}
		emit(map[string]any{"replay": job.Replay, "started": true})
		res := eng.run(t, sc, dump)
		same := false
		for _, v := range res.Violations {
			if v.Sig() == rf.Violation.Sig() {
				same = true
			}
		}
		emit(map[string]any{"replay": job.Replay, "reproduced": same, "log_hash": res.LogHash, "want_log_hash": rf.LogHash,
			"hash_equal": res.LogHash == rf.LogHash, "violations": res.Violations, "harness_err": res.HarnessErr, "summary": res.Summary})
		return
	}

	deadline := time.Now().Add(time.Duration(job.BudgetS) * time.Second)
	seenSig := map[string]bool{}
	if job.MaxViol == 0 {
		job.MaxViol = 6
	}
	shrinkEnd := time.Now().Add(time.Duration(job.BudgetS+job.ShrinkS) * time.Second)
	for i := 0; i < job.SeedCount; i++ {
		if job.BudgetS > 0 && time.Now().After(deadline) {
			break
		}
		stride := uint64(1)
		if job.SeedStride > 1 {
			stride = uint64(job.SeedStride)
		}
		seed := job.SeedStart + uint64(i)*stride
		sc := eng.gen(job.Prop, seed, job.Tier)
		if traceEvery > 0 {
			b, _ := json.Marshal(sc)
			fmt.Fprintf(os.Stderr, "trace: scenario %s\n", b)
		}
		if cb, err := json.Marshal(map[string]any{"engine": job.Engine, "prop": job.Prop, "seed": seed, "scenario": sc}); err == nil {
			_ = os.WriteFile(job.Out+".cur", cb, 0o644) // if the process dies in this run, the driver knows which one it was
		}
		res := eng.run(t, sc, dump)
		if i == 0 {
			b, _ := json.Marshal(sc)
			res.Summary += " scenario=" + string(b)
		}
		vp := job.Prop
		if job.ViolProp != "" {
			vp = job.ViolProp
		}
		if res.HarnessErr == "" {
			for _, v0 := range res.Violations {
				v := v0
				if v.Prop != vp || seenSig[v.Sig()] || len(seenSig) >= job.MaxViol {
					continue
				}
				seenSig[v.Sig()] = true
				known := false
				for _, k := range job.KnownSigs {
					if k == v.Sig() {
						known = true
					}
				}
				// minimise while the same oracle (and facts) keeps failing
				same := func(r RunResult) *Violation {
					for i := range r.Violations {
						if r.Violations[i].Sig() == v.Sig() {
							return &r.Violations[i]
						}
					}
					return nil
				}
				best, bestRes, steps := sc, res, 0
				// minimisation is bounded per violation, and tells the driver that the worker is alive
				vEnd := time.Now().Add(time.Duration(job.ShrinkS) * time.Second)
				if vEnd.After(shrinkEnd) {
					vEnd = shrinkEnd
				}
				if eng.shrink != nil && !known && time.Now().Before(vEnd) {
					progress := true
					for progress && time.Now().Before(vEnd) && steps < 300 {
						progress = false
						for _, c := range eng.shrink(best) {
							if time.Now().After(vEnd) {
								break
							}
							r2 := eng.run(t, c, nil)
							steps++
							emit(map[string]any{"heartbeat": "minimising", "of_seed": seed, "step": steps})
							if r2.HarnessErr == "" && same(r2) != nil {
								best, bestRes, progress = c, r2, true
								break
							}
						}
					}
				}
				bv := same(bestRes)
				sb, _ := json.Marshal(best)
				rf := ReplayFile{Engine: job.Engine, Prop: vp, Seed: seed, Violation: *bv, LogHash: bestRes.LogHash, Events: bestRes.Events, Shrunk: steps, Scenario: sb}
				name := fmt.Sprintf("%s/%s-%s-%d-%s-%s.json", job.ReplayDir, vp, job.Engine, seed, fileSafe(bv.Oracle), fileSafe(bv.Facts))
				fb, _ := json.MarshalIndent(rf, "", " ")
				if err := os.WriteFile(name, fb, 0o644); err == nil {
					res.Replays = append(res.Replays, name)
				}
			}
		}
		emit(res)
	}
}

// fileSafe keeps replay file names free of blanks and path separators.
func fileSafe(s string) string {
	b := []byte(s)
	for i, c := range b {
		ok := c >= 'a' && c <= 'z' || c >= 'A' && c <= 'Z' || c >= '0' && c <= '9' || c == '-' || c == '_' || c == '.'
		if !ok {
			b[i] = '_'
		}
	}
	if len(b) > 120 {
		b = b[:120]
	}
	return string(b)
}
