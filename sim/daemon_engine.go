package zverif

// E-daemon: n real core.DrandDaemon instances (beacon processes, DKG process, HTTP
// handler, on-disk key store, DKG database, chain database) on the simulated
// transport. Sockets are replaced by the overlay (R3); every request goes
// through the interceptor chain that listener.go built.

import (
	"bytes"
	"context"
	"fmt"
	"io"
	"os"
	"path/filepath"
	"sort"
	"strings"
	"sync"
	"testing/synctest"
	"time"

	"github.com/BurntSushi/toml"
	"google.golang.org/grpc"
	"google.golang.org/grpc/metadata"
	"google.golang.org/protobuf/proto"
	"google.golang.org/protobuf/types/known/timestamppb"

	"github.com/drand/drand/v2/common/key"
	dlog "github.com/drand/drand/v2/common/log"
	"github.com/drand/drand/v2/crypto"
	"github.com/drand/drand/v2/internal/chain"
	"github.com/drand/drand/v2/internal/core"
	"github.com/drand/drand/v2/internal/dkg"
	dnet "github.com/drand/drand/v2/internal/net"
	"github.com/drand/drand/v2/internal/util"
	pdkg "github.com/drand/drand/v2/protobuf/dkg"
	"github.com/drand/drand/v2/protobuf/drand"
	simrt "github.com/drand/drand/v2/zsimrt"
	"github.com/drand/kyber"
	"github.com/drand/kyber/share"
)

type ResharePlan struct {
	AtRound int    `json:"at_round"` // the proposal is made when this round is due
	Join    []int  `json:"join,omitempty"`
	Leave   []int  `json:"leave,omitempty"`
	NewT    int    `json:"new_t"`
	Fail    string `json:"fail,omitempty"` // "", abort, expire, exec_partition
	StopLeavers bool `json:"stop_leavers,omitempty"` // the operators of leaving nodes shut them down just before the transition
	DownInExec  int  `json:"down_in_exec,omitempty"` // remaining member (position+1) that accepted and goes down before the execution starts (and stays down)
}

type DaemonScenario struct {
	Engine     string        `json:"engine"`
	Prop       string        `json:"prop"`
	Seed       uint64        `json:"seed"`
	N          int           `json:"n"`
	T          int           `json:"t"`
	Extra      int           `json:"extra"` // daemons that are not in the first group
	Scheme     string        `json:"scheme"`
	PeriodS    int           `json:"period_s"`
	CatchupS   int           `json:"catchup_s"`
	Backend    string        `json:"backend"` // bolt | memdb
	MemSize    int           `json:"mem_size,omitempty"`
	Net        NetPlan       `json:"net"`
	Yield      YieldPlan     `json:"yield"`
	GenesisInS int           `json:"genesis_in_s"`
	PhaseS     int           `json:"phase_s"`
	KickoffS   int           `json:"kickoff_s"`
	Rounds     int           `json:"rounds"`
	Reshares   []ResharePlan `json:"reshares,omitempty"`
	Script     []Act         `json:"script,omitempty"`
	HealAtMs   int64         `json:"heal_at_ms"`
	BeaconIDs  []string      `json:"beacon_ids,omitempty"` // default: ["default"]
	OnlyCheckNodeInMemory bool `json:"only_check_node_in_memory,omitempty"` // with backend memdb: only the node whose chain is checked uses the ring
	FreshIDs   []string      `json:"fresh_ids,omitempty"`  // further chains the daemons hold keys for but never run a key generation of (no group)
	DKGOnly    bool          `json:"dkg_only,omitempty"`
	Crash      *CrashPlan    `json:"crash,omitempty"`
	DKGFault   *DKGFault     `json:"dkg_fault,omitempty"`
	Follow     *FollowPlan   `json:"follow,omitempty"`
	Check      *CheckPlan    `json:"check,omitempty"`
	DKGSteps   []DKGStep     `json:"dkg_steps,omitempty"`
	Mode       string        `json:"mode,omitempty"` // engine sub-mode chosen by the generator (fuzz, secrets, ...)
	CloseDKGDBAtFinish int  `json:"close_dkg_db_at_finish,omitempty"` // node (position+1) whose key-generation database is closed just before it records a completed resharing (storage fault)
}

type DKGFault struct {
	Kind string `json:"kind"`
	Node int    `json:"node"`
}

type dNode struct {
	e      *daemonEngine
	idx    int
	addr   string
	dir    string
	clock  *SimClock
	mu     sync.Mutex
	dd     *core.DrandDaemon
	vep    *dnet.VerifEndpoint
	up     bool
	dead   bool
	gen    int
	pairs  map[string]*key.Pair
	sink   *logSink
	logBuf bytes.Buffer
	since  time.Time
	stopped map[string]bool // beacon ids stopped through the control API
	limbo    map[string]bool // beacon ids whose load failed half-way
	routeVer int            // odd while a chain is being stopped or loaded
	pc       persistCtl
	zombie   bool
	snap     string
	clients  []*SimClient
	dkgStore dkg.Store
	gone     chan struct{} // closed when this incarnation crashes
	// C10 through the daemon
	chainBase     chain.Store
	following     bool
	repairing     bool
	repairPuts    []uint64
	repairUpTo    uint64
	lastFollowPut uint64
	followCancel  context.CancelFunc
	followErr     error
	followEnded   bool
	dkgTrack      *dkgTrack
	loosened      map[string][32]byte // secret files given a wider mode by hand (restored backup): name -> content then
	lastGroup     map[string]*key.Group // C20: what this node wrote last, per beacon id
	lastShare     map[string]*key.Share
	finishedAt    map[uint32]time.Time // when this node recorded each epoch as completed
	infoFromMembers int                // chain-info answers a follower received from nodes of the chain
}

func (n *dNode) bumpRoute() {
	n.mu.Lock()
	n.routeVer++
	n.mu.Unlock()
}

type oldShare struct {
	who string
	b   []byte
}

type epochInfo struct {
	n        int
	group    *key.Group
	master   kyber.Scalar
	members  []int
	complete map[int]bool
	ttDiffer bool // completers of this epoch computed different transition times
	membersDiffer bool // completers of this epoch hold groups with different member sets (their key generations qualified different dealers)
}

type chainCtx struct {
	id      string
	ref     *RefScheme
	sch     *crypto.Scheme
	chain   *RefChain
	epochs  []*epochInfo
	genesis time.Time
	infoRef string // canonical description of the chain's identity, first seen
}

type daemonEngine struct {
	sc     *DaemonScenario
	rec    *Recorder
	w      *World
	dir    string
	start  time.Time
	nodes  []*dNode
	chains map[string]*chainCtx
	ctlSeq int
	curAdr string // address handed to the client factory while a daemon is being built
	curNode *dNode
	wire   bytes.Buffer
	wireMu sync.Mutex
	keepIO bool
	served int
	oldShares []oldShare
	crashKind string
	gossip    []*pdkg.GossipPacket // genuine DKG gossip seen on the wire (material for the forger)
	pendingLeader *dNode
	migrating bool
	lastFault time.Time // end of the last fault injected outside the script (by the resharing driver)
	servedMax map[int]uint64
	rwSite    string
	stdoutMu  sync.Mutex
	stdoutLog bytes.Buffer  // what loggers without an explicit output wrote (overlay rule R8)
	looseWrites []looseWrite // secret-store files that were readable by others while content was written to them
}

type looseWrite struct {
	node    string
	path    string
	mode    os.FileMode
	content []byte
}

type stdoutTap struct{ e *daemonEngine }

func (t stdoutTap) Write(p []byte) (int, error) {
	t.e.stdoutMu.Lock()
	if t.e.stdoutLog.Len() < 64<<20 {
		t.e.stdoutLog.Write(p)
	}
	t.e.stdoutMu.Unlock()
	return len(p), nil
}
func (t stdoutTap) Sync() error { return nil }

// looseHook watches the file-level steps of the key store's writing code (overlay rule R7): content written to a
// file that others can read at that moment is kept, and judged once all secrets of the run are known.
func (e *daemonEngine) looseHook(op, path string, nbytes int, trunc bool) int {
	if op != "written" {
		return -1
	}
	fi, err := os.Stat(path)
	if err != nil || fi.Mode().Perm()&0o077 == 0 {
		return -1
	}
	n := e.nodeOfFolder(filepath.Dir(path))
	if n == nil {
		return -1
	}
	if b, err := os.ReadFile(path); err == nil && len(b) < 1<<20 {
		e.stdoutMu.Lock()
		e.looseWrites = append(e.looseWrites, looseWrite{n.addr, path, fi.Mode().Perm(), b})
		e.stdoutMu.Unlock()
		e.rec.Count("probe:writes_to_files_readable_by_others", 1)
	}
	return -1
}

// ---------------------------------------------------------------- endpoint

type simServerStream struct {
	ctx  context.Context
	send func(proto.Message) error
}

func (s *simServerStream) SetHeader(metadata.MD) error  { return nil }
func (s *simServerStream) SendHeader(metadata.MD) error { return nil }
func (s *simServerStream) SetTrailer(metadata.MD)       {}
func (s *simServerStream) Context() context.Context     { return s.ctx }
func (s *simServerStream) SendMsg(m any) error {
	pm, ok := m.(proto.Message)
	if !ok {
		return fmt.Errorf("not a proto message")
	}
	return s.send(pm)
}
func (s *simServerStream) RecvMsg(any) error { return io.EOF }

type syncSrv struct{ grpc.ServerStream }

func (s syncSrv) Send(m *drand.BeaconPacket) error { return s.ServerStream.SendMsg(m) }

type randSrv struct{ grpc.ServerStream }

func (s randSrv) Send(m *drand.PublicRandResponse) error { return s.ServerStream.SendMsg(m) }

type daemonEP struct{ n *dNode }

// escaped records a panic that got past the interceptor chain: the process would be gone.
func (ep *daemonEP) escaped(method string, p any) {
	ep.n.e.rec.Violate("C14", "panic-escaped-interceptors", methodShort(method), "node %s: a request to %s panicked through the interceptor chain: %v", ep.n.addr, method, p)
}

func methodShort(m string) string {
	if i := strings.LastIndex(m, "/"); i >= 0 {
		return m[i+1:]
	}
	return m
}

func (ep *daemonEP) Unary(ctx context.Context, method string, b []byte) (out proto.Message, err error) {
	n := ep.n
	n.mu.Lock()
	dd, vep := n.dd, n.vep
	n.mu.Unlock()
	if dd == nil {
		return nil, errRefused
	}
	if method == MHealth {
		return new(drand.Empty), nil
	}
	call := func(req proto.Message, h func(ctx context.Context, req any) (any, error)) (proto.Message, error) {
		if err := proto.Unmarshal(b, req); err != nil {
			return nil, err
		}
		var res any
		var err error
		func() {
			defer func() {
				if p := recover(); p != nil {
					ep.escaped(method, p)
					err = fmt.Errorf("sim: process died: %v", p)
				}
			}()
			info := &grpc.UnaryServerInfo{Server: dd, FullMethod: method}
			if vep != nil && vep.Unary != nil {
				res, err = vep.Unary(ctx, req, info, h)
			} else {
				res, err = h(ctx, req)
			}
		}()
		if err != nil {
			return nil, err
		}
		pm, _ := res.(proto.Message)
		return pm, nil
	}
	switch method {
	case MPartial:
		return call(new(drand.PartialBeaconPacket), func(ctx context.Context, r any) (any, error) {
			return dd.PartialBeacon(ctx, r.(*drand.PartialBeaconPacket))
		})
	case MIdentity:
		return call(new(drand.IdentityRequest), func(ctx context.Context, r any) (any, error) {
			return dd.GetIdentity(ctx, r.(*drand.IdentityRequest))
		})
	case MStatus:
		return call(new(drand.StatusRequest), func(ctx context.Context, r any) (any, error) {
			return dd.Status(ctx, r.(*drand.StatusRequest))
		})
	case MPublicRand:
		return call(new(drand.PublicRandRequest), func(ctx context.Context, r any) (any, error) {
			return dd.PublicRand(ctx, r.(*drand.PublicRandRequest))
		})
	case MChainInfo:
		return call(new(drand.ChainInfoRequest), func(ctx context.Context, r any) (any, error) {
			return dd.ChainInfo(ctx, r.(*drand.ChainInfoRequest))
		})
	case MListBeacons:
		return call(new(drand.ListBeaconIDsRequest), func(ctx context.Context, r any) (any, error) {
			return dd.ListBeaconIDs(ctx, r.(*drand.ListBeaconIDsRequest))
		})
	case MDKGPacket:
		return call(new(pdkg.GossipPacket), func(ctx context.Context, r any) (any, error) {
			return dd.Packet(ctx, r.(*pdkg.GossipPacket))
		})
	case MDKGBcast:
		return call(new(pdkg.DKGPacket), func(ctx context.Context, r any) (any, error) {
			return dd.BroadcastDKG(ctx, r.(*pdkg.DKGPacket))
		})
	case MMetrics:
		return call(new(drand.MetricsRequest), func(ctx context.Context, r any) (any, error) {
			return dd.Metrics(ctx, r.(*drand.MetricsRequest))
		})
	}
	return nil, unimplemented(method)
}

func (ep *daemonEP) Stream(ctx context.Context, method string, b []byte, send func(proto.Message) error) (err error) {
	n := ep.n
	n.mu.Lock()
	dd, vep := n.dd, n.vep
	n.mu.Unlock()
	if dd == nil {
		return errRefused
	}
	ss := &simServerStream{ctx: ctx, send: send}
	run := func(h grpc.StreamHandler) error {
		var err error
		func() {
			defer func() {
				if p := recover(); p != nil {
					ep.escaped(method, p)
					err = fmt.Errorf("sim: process died: %v", p)
				}
			}()
			info := &grpc.StreamServerInfo{FullMethod: method, IsServerStream: true}
			if vep != nil && vep.Stream != nil {
				err = vep.Stream(dd, ss, info, h)
			} else {
				err = h(dd, ss)
			}
		}()
		return err
	}
	switch method {
	case MSyncChain:
		req := new(drand.SyncRequest)
		if err := proto.Unmarshal(b, req); err != nil {
			return err
		}
		return run(func(_ any, s grpc.ServerStream) error { return dd.SyncChain(req, syncSrv{s}) })
	case MRandStream:
		req := new(drand.PublicRandRequest)
		if err := proto.Unmarshal(b, req); err != nil {
			return err
		}
		return run(func(_ any, s grpc.ServerStream) error { return dd.PublicRandStream(req, randSrv{s}) })
	}
	return unimplemented(method)
}

// ---------------------------------------------------------------- lifecycle

func (e *daemonEngine) beaconIDs() []string {
	if len(e.sc.BeaconIDs) > 0 {
		return e.sc.BeaconIDs
	}
	return []string{"default"}
}

func (e *daemonEngine) schemeFor(id string) string {
	// further chains on the same daemon use other schemes (C19)
	for i, b := range e.beaconIDs() {
		if b == id && i > 0 {
			for k, s := range SchemeNames {
				if s == e.sc.Scheme {
					return SchemeNames[(k+i)%len(SchemeNames)]
				}
			}
		}
	}
	return e.sc.Scheme
}

func (e *daemonEngine) newConfig(n *dNode, lg dlog.Logger) *core.Config {
	e.ctlSeq++
	engine := chain.BoltDB
	mem := e.sc.Backend == "memdb"
	if mem && e.sc.OnlyCheckNodeInMemory && e.sc.Check != nil && n.idx != e.sc.Check.Node {
		mem = false // its peers keep the whole chain on disk: they can serve the rounds the ring has forgotten
	}
	if mem {
		engine = chain.MemDB
	}
	opts := []core.ConfigOption{
		core.WithConfigFolder(n.dir), core.WithPrivateListenAddress(n.addr), core.WithControlPort(fmt.Sprintf("%d", 20000+e.ctlSeq)),
		core.WithDkgKickoffGracePeriod(time.Duration(e.sc.KickoffS) * time.Second), core.WithDkgPhaseTimeout(time.Duration(e.sc.PhaseS) * time.Second),
		core.WithDBStorageEngine(engine), core.WithVerifClock(n.clock),
	}
	if mem {
		opts = append(opts, core.WithMemDBSize(e.sc.MemSize))
	}
	return core.NewConfig(lg, opts...)
}

// startDaemon builds a daemon on the node's directory: fresh (keys are written
// first) or restarted from whatever the directory holds.
func (e *daemonEngine) startDaemon(n *dNode, fresh bool) error {
	n.gen++
	lg, sink := NewNodeLogger(e.rec, n.addr, dlog.DebugLevel, false, func(_, line string) {
		if e.keepIO {
			n.mu.Lock()
			n.logBuf.WriteString(line)
			n.mu.Unlock()
		}
	}, func() {
		n.mu.Lock()
		n.dead = true
		n.mu.Unlock()
		e.rec.Ev("fatal", n.addr, "Fatal logged")
		e.rec.Count("probe:fatal", 1)
	})
	n.sink = sink
	e.curAdr, e.curNode = n.addr, n
	n.clients = nil
	conf := e.newConfig(n, lg)
	ctx := context.Background()
	dd, err := core.NewDrandDaemon(ctx, conf)
	if err != nil {
		return fmt.Errorf("NewDrandDaemon: %w", err)
	}
	if fresh {
		for _, id := range append(append([]string(nil), e.beaconIDs()...), e.sc.FreshIDs...) {
			ks := key.NewFileStore(conf.ConfigFolderMB(), id)
			if err := ks.SaveKeyPair(n.pairs[id]); err != nil {
				return err
			}
			if _, err := dd.InstantiateBeaconProcess(ctx, id, &pKeyStore{Store: ks, n: n, base: conf.ConfigFolderMB(), id: id}); err != nil {
				return fmt.Errorf("InstantiateBeaconProcess: %w", err)
			}
		}
	} else {
		// the daemon's own restart path (LoadBeaconsFromDisk minus the metrics server), with the
		// key stores decorated
		loadAll := func() error {
			stores, err := key.NewFileStores(conf.ConfigFolderMB())
			if err != nil {
				return err
			}
			var ids []string
			for id := range stores {
				ids = append(ids, id)
			}
			sort.Strings(ids)
			for _, id := range ids {
				if _, err := dd.LoadBeaconFromStore(ctx, id, &pKeyStore{Store: stores[id], n: n, base: conf.ConfigFolderMB(), id: id}); err != nil {
					return err
				}
			}
			return nil
		}
		if err := loadAll(); err != nil {
			e.rec.Ev("load_failed", n.addr, "%v", err)
			n.mu.Lock()
			n.dd, n.vep, n.up, n.since = dd, dnet.VerifEndpointFor(n.addr), true, time.Now()
			n.mu.Unlock()
			e.w.Register(n.addr, &daemonEP{n})
			return fmt.Errorf("loading beacons from disk: %w", err)
		}
	}
	n.mu.Lock()
	n.dd, n.vep, n.up, n.since, n.gone = dd, dnet.VerifEndpointFor(n.addr), true, time.Now(), make(chan struct{})
	n.mu.Unlock()
	e.w.Register(n.addr, &daemonEP{n})
	e.rec.Ev("daemon_start", n.addr, "gen=%d fresh=%v", n.gen, fresh)
	if !fresh && e.sc.Crash == nil {
		for _, id := range e.beaconIDs() {
			e.rtReload(n, id)
		}
	}
	return nil
}

func (e *daemonEngine) stopDaemon(n *dNode) {
	n.mu.Lock()
	dd := n.dd
	n.dd, n.up = nil, false
	n.mu.Unlock()
	if dd == nil {
		return
	}
	e.w.Unregister(n.addr)
	done := make(chan struct{})
	go func() {
		defer close(done)
		dd.Stop(context.Background())
	}()
	select {
	case <-done:
	case <-time.After(30 * time.Second):
		// Stop is wedged (it needs a lock that something holds for ever). The run must still
		// end: stop what keeps time alive without the daemon's help and silence the node.
		e.rec.Count("probe:daemon_stop_blocked", 1)
		e.rec.Ev("daemon_stop_blocked", n.addr, "")
		for _, id := range dd.VerifBeaconIDs() {
			if bp := dd.VerifBeaconProcess(id); bp != nil {
				go bp.Stop(context.Background())
			}
		}
		n.clock.Freeze()
	}
	e.rec.Ev("daemon_stop", n.addr, "")
	e.rec.Count("fault:stop", 1)
}

func (e *daemonEngine) setup() error {
	sc := e.sc
	e.start = time.Now()
	e.chains = map[string]*chainCtx{}
	for _, id := range e.beaconIDs() {
		name := e.schemeFor(id)
		ref, err := NewRefScheme(name)
		if err != nil {
			return err
		}
		sch, err := crypto.SchemeFromName(name)
		if err != nil {
			return err
		}
		e.chains[id] = &chainCtx{id: id, ref: ref, sch: sch}
	}
	dnet.VerifReset()
	dnet.VerifClientFactory = func(l dlog.Logger) dnet.Client {
		c := &SimClient{W: e.w, Self: e.curAdr}
		if e.curNode != nil {
			e.curNode.clients = append(e.curNode.clients, c)
		}
		return c
	}
	e.servedMax = map[int]uint64{}
	e.installPersistHooks()
	simrt.PermHook = func(k int) []int {
		return NewRng(H64(sc.Seed, "perm", k, time.Now().UnixNano())).Perm(k)
	}
	for i := 0; i < sc.N+sc.Extra; i++ {
		n := &dNode{e: e, idx: i, addr: fmt.Sprintf("node%d.sim:443", i), dir: filepath.Join(e.dir, fmt.Sprintf("n%d", i)),
			clock: NewSimClock(0, 7*(i+1)), pairs: map[string]*key.Pair{}, lastGroup: map[string]*key.Group{}, lastShare: map[string]*key.Share{}}
		if err := os.MkdirAll(n.dir, 0o755); err != nil {
			return err
		}
		for _, id := range e.beaconIDs() {
			sch := e.chains[id].sch
			if fp := sc.Follow; fp != nil && fp.Node == i && fp.KeyScheme != "" {
				// a follower is no member: nothing says its own key pair is of the scheme of the chain it follows
				if s2, err := crypto.SchemeFromName(fp.KeyScheme); err == nil {
					sch = s2
				}
			}
			p, err := seededPair(n.addr, sch, H64(sc.Seed, "pair", i, id))
			if err != nil {
				return err
			}
			n.pairs[id] = p
		}
		for _, id := range sc.FreshIDs {
			p, err := seededPair(n.addr, e.chains[e.beaconIDs()[len(e.beaconIDs())-1]].sch, H64(sc.Seed, "pair", i, id))
			if err != nil {
				return err
			}
			n.pairs[id] = p
		}
		e.nodes = append(e.nodes, n)
		if err := e.startDaemon(n, true); err != nil {
			return err
		}
	}
	e.w.OnWire = func(from, to, method, dir string, b []byte) {
		e.wireMu.Lock()
		defer e.wireMu.Unlock()
		if e.keepIO {
			e.wire.Write(b)
			e.wire.WriteByte(0)
		}
		if method == MDKGPacket && dir == "req" && len(e.sc.DKGSteps) > 0 {
			g := new(pdkg.GossipPacket)
			if proto.Unmarshal(b, g) == nil && g.GetDkg() == nil && g.Metadata != nil {
				e.gossip = append(e.gossip, g)
				if len(e.gossip) > 300 {
					e.gossip = append([]*pdkg.GossipPacket(nil), e.gossip[100:]...)
				}
			}
		}
	}
	return nil
}

func (e *daemonEngine) participant(n *dNode, id string) *pdkg.Participant {
	p, _ := util.PublicKeyAsParticipant(n.pairs[id].Public)
	return p
}

func (e *daemonEngine) cmd(n *dNode, id string, c *pdkg.DKGCommand) error {
	n.mu.Lock()
	dd := n.dd
	gone := n.gone
	n.mu.Unlock()
	if dd == nil {
		return fmt.Errorf("down")
	}
	c.Metadata = &pdkg.CommandMetadata{BeaconID: id}
	// the command runs on its own goroutine: if the process "dies" inside it (C13) the
	// operator's call never returns, the harness must go on
	done := make(chan error, 1)
	go func() {
		_, err := dd.Command(context.Background(), c)
		done <- err
	}()
	var err error
	select {
	case err = <-done:
	case <-gone:
		err = fmt.Errorf("node crashed during the command")
	}
	e.rec.Ev("dkg_cmd", n.addr, "%T err=%v", c.Command, err != nil)
	return err
}

// runInitialDKG drives the first key generation the way an operator would.
func (e *daemonEngine) runInitialDKG(id string, genesis time.Time) error {
	sc := e.sc
	cc := e.chains[id]
	var joiners []*pdkg.Participant
	for i := 0; i < sc.N; i++ {
		joiners = append(joiners, e.participant(e.nodes[i], id))
	}
	// the listing order of the participants is the leader's business: permute it
	perm := NewRng(H64(sc.Seed, "joinorder", id)).Perm(len(joiners))
	pj := make([]*pdkg.Participant, len(joiners))
	for i, p := range perm {
		pj[i] = joiners[p]
	}
	leader := e.nodes[0]
	err := e.cmd(leader, id, &pdkg.DKGCommand{Command: &pdkg.DKGCommand_Initial{Initial: &pdkg.FirstProposalOptions{
		Timeout: timestamppb.New(time.Now().Add(time.Duration(6*sc.PhaseS+sc.KickoffS+30) * time.Second)), Threshold: uint32(sc.T),
		PeriodSeconds: uint32(sc.PeriodS), Scheme: cc.sch.Name, CatchupPeriodSeconds: uint32(sc.CatchupS),
		GenesisTime: timestamppb.New(genesis), Joining: pj}}})
	if err != nil {
		return fmt.Errorf("initial proposal: %w", err)
	}
	time.Sleep(time.Second)
	synctest.Wait()
	for i := 1; i < sc.N; i++ {
		if err := e.cmd(e.nodes[i], id, &pdkg.DKGCommand{Command: &pdkg.DKGCommand_Join{Join: &pdkg.JoinOptions{}}}); err != nil {
			return fmt.Errorf("join %d: %w", i, err)
		}
	}
	time.Sleep(time.Second)
	synctest.Wait()
	e.afterJoin()
	if err := e.cmd(leader, id, &pdkg.DKGCommand{Command: &pdkg.DKGCommand_Execute{Execute: &pdkg.ExecutionOptions{}}}); err != nil {
		return fmt.Errorf("execute: %w", err)
	}
	cc.genesis = genesis
	return nil
}

// ---------------------------------------------------------------- observation

func (e *daemonEngine) bp(n *dNode, id string) *core.BeaconProcess {
	n.mu.Lock()
	dd := n.dd
	n.mu.Unlock()
	if dd == nil {
		return nil
	}
	return dd.VerifBeaconProcess(id)
}

// collectEpoch reads, from every running member, the group and share it holds
// and checks C06 for the epoch; it also (re)derives the master secret.
func (e *daemonEngine) collectEpoch(id string, members []int, epochNo int, old *key.Group) *epochInfo {
	cc := e.chains[id]
	ep := &epochInfo{n: epochNo, members: members, complete: map[int]bool{}}
	var shares []*share.PriShare
	var ref *key.Group
	var refNode int
	for _, i := range members {
		n := e.nodes[i]
		bp := e.bp(n, id)
		if bp == nil {
			continue
		}
		g, sh := bp.VerifGroup(), bp.VerifShare()
		if g == nil || sh == nil || sh.Share == nil || g.PublicKey == nil {
			continue
		}
		if old != nil && groupDiff(old, g) == "" {
			continue // this member did not complete the new epoch: it still holds the previous group
		}
		ep.complete[i] = true
		e.rtWire(n, id, g)
		e.rtTamper(n, g)
		if ref == nil {
			ref, refNode = g, i
		} else if d := groupDiff(ref, g); d != "" {
			facts := strings.SplitN(d, ":", 2)[0]
			if facts == "transition_time" && epochNo > 1 && (ref.TransitionTime == ref.GenesisTime || g.TransitionTime == g.GenesisTime) {
				facts = "transition_time-equals-genesis-after-reshare"
			}
			if facts == "transition_time" {
				// the known way for transition times to differ is that the two nodes finished the key generation in
				// different rounds; if both finished within one round, this is something else
				n.mu.Lock()
				ta := n.finishedAt[uint32(epochNo)]
				n.mu.Unlock()
				rn := e.nodes[refNode]
				rn.mu.Lock()
				tb := rn.finishedAt[uint32(epochNo)]
				rn.mu.Unlock()
				if !ta.IsZero() && !tb.IsZero() && cc.genesis.Unix() > 0 &&
					refCurrentRound(ta.Unix(), e.sc.PeriodS, cc.genesis.Unix()) == refCurrentRound(tb.Unix(), e.sc.PeriodS, cc.genesis.Unix()) {
					facts = "transition_time-differs-although-both-finished-in-the-same-round"
				}
			}
			if strings.HasPrefix(facts, "transition_time") {
				ep.ttDiffer = true
			}
			if facts == "members" || facts == "public_key" {
				// the completers qualified different sets of dealers (different member sets, or the same members on
				// different polynomials). With messages that the scenario delays by amounts comparable to a phase of
				// the key generation this is the known limit of the timed protocol; without such delays it is not
				ep.membersDiffer = true
				if e.lateMessages() {
					facts += "-with-late-messages"
				}
			}
			e.rec.Violate("C06", "groups-differ", facts, "beacon %s epoch %d: node%d and node%d hold different groups: %s", id, epochNo, refNode, i, d)
			// groupDiff names the first field that differs; a different set of qualified dealers may hide behind it
			if !strings.HasPrefix(facts, "members") && !strings.HasPrefix(facts, "public_key") {
				q := ""
				if len(ref.Nodes) != len(g.Nodes) {
					q = "members"
				} else if !ref.PublicKey.Equal(g.PublicKey) {
					q = "public_key"
				}
				if q != "" {
					ep.membersDiffer = true
					if e.lateMessages() {
						q += "-with-late-messages"
					}
					e.rec.Violate("C06", "groups-differ", q, "beacon %s epoch %d: node%d and node%d also differ in %s", id, epochNo, refNode, i, q)
				}
			}
		}
		// the share lies on the public polynomial
		pub := share.NewPubPoly(cc.ref.KeyGroup, cc.ref.KeyGroup.Point().Base(), g.PublicKey.Coefficients)
		want := pub.Eval(sh.Share.I).V
		if !cc.ref.KeyGroup.Point().Mul(sh.Share.V, nil).Equal(want) {
			e.rec.Violate("C06", "share-not-on-public-polynomial", "share", "beacon %s epoch %d: node%d's share (index %d) is not on the group's public polynomial", id, epochNo, i, sh.Share.I)
		}
		if nd := g.Find(n.pairs[id].Public); nd == nil || int(nd.Index) != sh.Share.I {
			e.rec.Violate("C06", "share-index-mismatch", "index", "beacon %s epoch %d: node%d holds share index %d but the group lists it differently", id, epochNo, i, sh.Share.I)
		}
		shares = append(shares, sh.Share)
		if e.keepIO {
			if b, err := sh.Share.V.MarshalBinary(); err == nil {
				e.stdoutMu.Lock()
				e.oldShares = append(e.oldShares, oldShare{n.addr, b})
				e.stdoutMu.Unlock()
			}
		}
	}
	ep.group = ref
	after := ""
	if ep.membersDiffer {
		// shares of completers that qualified different sets of dealers do not lie on one polynomial: what
		// follows is the consequence of the disagreement above, named as such
		after = "-after-members-diverged"
	}
	if ref != nil && len(shares) >= ref.Threshold {
		// any threshold of the shares interpolates the same secret
		r := NewRng(H64(e.sc.Seed, "subsets", id, epochNo))
		var first kyber.Scalar
		for k := 0; k < 6; k++ {
			p := r.Perm(len(shares))[:ref.Threshold]
			sub := make([]*share.PriShare, 0, len(p))
			for _, j := range p {
				sub = append(sub, shares[j])
			}
			s, err := share.RecoverSecret(cc.ref.KeyGroup, sub, ref.Threshold, len(ref.Nodes))
			if err != nil {
				e.rec.Violate("C06", "shares-do-not-interpolate", "recover"+after, "beacon %s epoch %d: %v", id, epochNo, err)
				break
			}
			if first == nil {
				first = s
			} else if !first.Equal(s) {
				e.rec.Violate("C06", "threshold-subsets-disagree", "recover"+after, "beacon %s epoch %d: two threshold subsets of the shares give different secrets", id, epochNo)
			}
		}
		ep.master = first
		if first != nil && !cc.ref.KeyGroup.Point().Mul(first, nil).Equal(ref.PublicKey.Key()) {
			e.rec.Violate("C06", "secret-does-not-match-group-key", "key"+after, "beacon %s epoch %d: the interpolated secret is not the private key of the group key", id, epochNo)
		}
	}
	return ep
}

// lateMessages: does the scenario delay messages by hundreds of milliseconds (slow links or a slow node)?
func (e *daemonEngine) lateMessages() bool {
	if e.sc.Net.SlowPct > 0 && e.sc.Net.SlowMs >= 200 {
		return true
	}
	for _, a := range e.sc.Script {
		if a.Kind == "slow" && a.A >= 200 {
			return true
		}
	}
	return false
}

func groupDiff(a, b *key.Group) string {
	switch {
	case a.Threshold != b.Threshold:
		return fmt.Sprintf("threshold: %d vs %d", a.Threshold, b.Threshold)
	case a.Period != b.Period:
		return "period"
	case a.CatchupPeriod != b.CatchupPeriod:
		return "catchup"
	case a.Scheme.Name != b.Scheme.Name:
		return "scheme"
	case a.ID != b.ID:
		return "id"
	case a.GenesisTime != b.GenesisTime:
		return fmt.Sprintf("genesis_time: %d vs %d", a.GenesisTime, b.GenesisTime)
	case !bytes.Equal(a.GenesisSeed, b.GenesisSeed):
		return "genesis_seed"
	case a.TransitionTime != b.TransitionTime:
		return fmt.Sprintf("transition_time: %d vs %d", a.TransitionTime, b.TransitionTime)
	case len(a.Nodes) != len(b.Nodes):
		return fmt.Sprintf("members: %d vs %d", len(a.Nodes), len(b.Nodes))
	case !a.PublicKey.Equal(b.PublicKey):
		return "public_key"
	}
	an := append([]*key.Node(nil), a.Nodes...)
	bn := append([]*key.Node(nil), b.Nodes...)
	sort.Slice(an, func(i, j int) bool { return an[i].Index < an[j].Index })
	sort.Slice(bn, func(i, j int) bool { return bn[i].Index < bn[j].Index })
	for i := range an {
		if an[i].Index != bn[i].Index || an[i].Addr != bn[i].Addr || !an[i].Key.Equal(bn[i].Key) {
			return fmt.Sprintf("members: index %d", an[i].Index)
		}
	}
	return ""
}

func groupTOML(g *key.Group) []byte {
	var b bytes.Buffer
	_ = toml.NewEncoder(&b).Encode(g.TOML())
	return b.Bytes()
}

// checkServed compares a beacon returned on any public surface with the chain.
func (e *daemonEngine) checkServed(cc *chainCtx, where, node string, want uint64, round uint64, prev, sig, randomness []byte) {
	e.served++
	for _, n := range e.nodes {
		if n.addr == node && round > e.servedMax[n.idx] {
			e.servedMax[n.idx] = round
		}
	}
	if cc.chain == nil {
		return
	}
	if want != 0 && round != want {
		e.rec.Violate("C01", "answer-for-another-round", where, "%s on %s: asked for round %d, got round %d", where, node, want, round)
		return
	}
	if round == 0 {
		return
	}
	if msg := cc.chain.CheckBeacon(round, prevFor(cc, round, prev), sig); msg != "" {
		e.rec.Violate("C01", "served-beacon-not-on-chain", where, "%s on %s: %s", where, node, msg)
	}
	if randomness != nil {
		h := sha256Sum(sig)
		if !bytes.Equal(h, randomness) {
			e.rec.Violate("C01", "randomness-not-sha256-of-signature", where, "%s on %s round %d", where, node, round)
		}
	}
}

// prevFor: surfaces that do not carry the previous signature on unchained
// networks pass nil; on chained networks what was carried is checked.
func prevFor(cc *chainCtx, round uint64, prev []byte) []byte {
	if !cc.ref.Chained {
		return nil
	}
	return prev
}

func sha256Sum(b []byte) []byte {
	h := sha256Digest(b)
	return h[:]
}
