package zverif

// C08 / C09: the DKG state machine along generated histories of operator commands and
// gossip packets, genuine and forged, observed at the DKG store of every node.

import (
	"bytes"
	"context"
	"fmt"
	"strings"
	"time"

	"github.com/BurntSushi/toml"
	"google.golang.org/protobuf/proto"
	"google.golang.org/protobuf/types/known/timestamppb"

	"github.com/drand/drand/v2/common/key"
	"github.com/drand/drand/v2/internal/dkg"
	pdkg "github.com/drand/drand/v2/protobuf/dkg"
)

// legalEdge: the transition relation written from the state descriptions of the protocol
// (who may do what in which state), not copied from the implementation's table.
var legalEdge = map[dkg.Status][]dkg.Status{
	dkg.Fresh:     {dkg.Proposing, dkg.Proposed},
	dkg.Proposing: {dkg.Executing, dkg.Aborted, dkg.TimedOut},
	dkg.Proposed:  {dkg.Accepted, dkg.Rejected, dkg.Joined, dkg.Left, dkg.Aborted, dkg.TimedOut},
	dkg.Accepted:  {dkg.Executing, dkg.Aborted, dkg.TimedOut},
	dkg.Rejected:  {dkg.Aborted, dkg.TimedOut},
	dkg.Joined:    {dkg.Executing, dkg.Aborted, dkg.TimedOut, dkg.Left},
	dkg.Executing: {dkg.Complete, dkg.Failed, dkg.TimedOut},
	dkg.Complete:  {dkg.Proposing, dkg.Proposed},
	dkg.Aborted:   {dkg.Proposing, dkg.Proposed},
	dkg.TimedOut:  {dkg.Proposing, dkg.Proposed, dkg.Aborted},
	dkg.Failed:    {dkg.Proposing, dkg.Proposed, dkg.Left, dkg.Aborted},
	dkg.Left:      {dkg.Joined, dkg.Proposed, dkg.Aborted},
}

type dkgTrack struct {
	cur     *dkg.DBState // last state saved as current (nil: fresh)
	fin     *dkg.DBState
	applied bool
}

// onDKGSave is called by the R4 decorator of the DKG store before every write.
func (e *daemonEngine) onDKGSave(n *dNode, finished bool, st *dkg.DBState) {
	if st == nil || st.BeaconID != "default" {
		return
	}
	n.mu.Lock()
	tr := n.dkgTrack
	if tr == nil {
		tr = &dkgTrack{}
		n.dkgTrack = tr
	}
	prevCur, prevFin := tr.cur, tr.fin
	cp := *st
	if finished {
		tr.fin = &cp
		if n.finishedAt == nil {
			n.finishedAt = map[uint32]time.Time{}
		}
		n.finishedAt[st.Epoch] = time.Now() // the key-generation code reads the unskewed clock, too
	}
	tr.cur = &cp
	n.mu.Unlock()
	e.rec.Count("probe:dkg_state_saves", 1)
	from, fromEpoch := dkg.Fresh, uint32(0)
	if prevCur != nil {
		from, fromEpoch = prevCur.State, prevCur.Epoch
	}
	if finished {
		if st.State != dkg.Complete {
			e.rec.Violate("C08", "finished-record-not-complete", st.State.String(), "node %s: a %s state of epoch %d was saved as the completed record", n.addr, st.State, st.Epoch)
		}
		if st.FinalGroup == nil || st.KeyShare == nil {
			e.rec.Violate("C08", "finished-record-not-whole", "nil", "node %s: completed record of epoch %d without group or share", n.addr, st.Epoch)
		}
		if prevFin != nil && st.Epoch <= prevFin.Epoch && !e.migrating {
			e.rec.Violate("C08", "finished-record-replaced-by-older-epoch", "epoch", "node %s: completed record of epoch %d replaced by epoch %d", n.addr, prevFin.Epoch, st.Epoch)
		}
	}
	if st.Epoch < fromEpoch {
		e.rec.Violate("C08", "epoch-decreased", "epoch", "node %s: current epoch went from %d to %d (%s -> %s)", n.addr, fromEpoch, st.Epoch, from, st.State)
	}
	if st.State == from && st.Epoch == fromEpoch {
		return // same state saved again (acceptors / rejectors lists grow)
	}
	ok := false
	for _, to := range legalEdge[from] {
		if to == st.State {
			ok = true
		}
	}
	if !ok {
		e.rec.Violate("C08", "illegal-transition", from.String()+"->"+st.State.String(), "node %s: state went from %s (epoch %d) to %s (epoch %d)", n.addr, from, fromEpoch, st.State, st.Epoch)
	}
	if st.Epoch > fromEpoch && st.State != dkg.Proposing && st.State != dkg.Proposed {
		e.rec.Violate("C08", "epoch-advanced-without-proposal", st.State.String(), "node %s: epoch %d -> %d entering %s", n.addr, fromEpoch, st.Epoch, st.State)
	}
}

type dkgSnap struct {
	cur, fin []byte
}

func (e *daemonEngine) dkgSnapshot(n *dNode) dkgSnap {
	n.mu.Lock()
	ds := n.dkgStore
	n.mu.Unlock()
	var s dkgSnap
	if ds == nil {
		return s
	}
	if c, err := ds.GetCurrent("default"); err == nil && c != nil {
		var b bytes.Buffer
		_ = toml.NewEncoder(&b).Encode(c.TOML())
		s.cur = b.Bytes()
	}
	if f, err := ds.GetFinished("default"); err == nil && f != nil {
		s.fin = []byte(fmt.Sprintf("%d|%s|%x", f.Epoch, f.State, f.FinalGroup.Hash()))
	}
	return s
}

func (s dkgSnap) equal(o dkgSnap) bool { return bytes.Equal(s.cur, o.cur) && bytes.Equal(s.fin, o.fin) }

// ---- steps

type DKGStep struct {
	K    string `json:"k"` // cmd | forge | flow
	Node int    `json:"node"`
	S    string `json:"s,omitempty"` // command kind / mutation kind
	A    int    `json:"a,omitempty"`
}

func (e *daemonEngine) lastGenuine(kind string) *pdkg.GossipPacket {
	e.wireMu.Lock()
	defer e.wireMu.Unlock()
	for i := len(e.gossip) - 1; i >= 0; i-- {
		g := e.gossip[i]
		if kind == "" || packetKind(g) == kind {
			return proto.Clone(g).(*pdkg.GossipPacket)
		}
	}
	return nil
}

func packetKind(g *pdkg.GossipPacket) string {
	switch g.Packet.(type) {
	case *pdkg.GossipPacket_Proposal:
		return "proposal"
	case *pdkg.GossipPacket_Accept:
		return "accept"
	case *pdkg.GossipPacket_Reject:
		return "reject"
	case *pdkg.GossipPacket_Abort:
		return "abort"
	case *pdkg.GossipPacket_Execute:
		return "execute"
	}
	return "other"
}

// sendGossip hands a packet to node n's public endpoint, as a remote peer would.
func (e *daemonEngine) sendGossip(n *dNode, g *pdkg.GossipPacket, label string) error {
	_, err := e.timedCall(n, MDKGPacket, g, label, 20*time.Second)
	return err
}

func (e *daemonEngine) members() []int { return e.currentMembers("default") }

func (e *daemonEngine) reshareTerms(epoch uint32, remaining []int, timeout time.Time, thr int) *pdkg.ProposalTerms {
	cc := e.chains["default"]
	g := cc.epochs[0].group
	terms := &pdkg.ProposalTerms{BeaconID: "default", Epoch: epoch, Threshold: uint32(thr), Timeout: timestamppb.New(timeout), CatchupPeriodSeconds: uint32(e.sc.CatchupS),
		BeaconPeriodSeconds: uint32(e.sc.PeriodS), SchemeID: cc.sch.Name, GenesisTime: timestamppb.New(time.Unix(g.GenesisTime, 0)), GenesisSeed: g.GenesisSeed}
	for _, i := range remaining {
		terms.Remaining = append(terms.Remaining, e.participant(e.nodes[i], "default"))
	}
	terms.Leader = terms.Remaining[0]
	return terms
}

// runDKGSteps interprets the generated history. Every step is followed by a pause and a
// check that nodes whose call returned an error kept their records byte-identical.
func (e *daemonEngine) runDKGSteps(res *RunResult) {
	id := "default"
	cc := e.chains[id]
	for si, st := range e.sc.DKGSteps {
		members := e.members()
		if st.Node >= len(e.nodes) {
			continue
		}
		n := e.nodes[st.Node]
		if !n.up {
			continue
		}
		before := e.dkgSnapshot(n)
		var err error
		mustFail, label := false, st.K+":"+st.S
		curEpoch := uint32(len(cc.epochs))
		future := time.Now().Add(e.dkgDuration() + 10*time.Second)
		switch st.K {
		case "cmd":
			switch st.S {
			case "accept":
				err = e.cmd(n, id, &pdkg.DKGCommand{Command: &pdkg.DKGCommand_Accept{Accept: &pdkg.AcceptOptions{}}})
			case "reject":
				err = e.cmd(n, id, &pdkg.DKGCommand{Command: &pdkg.DKGCommand_Reject{Reject: &pdkg.RejectOptions{}}})
			case "join":
				err = e.cmd(n, id, &pdkg.DKGCommand{Command: &pdkg.DKGCommand_Join{Join: &pdkg.JoinOptions{GroupFile: groupTOML(cc.epochs[len(cc.epochs)-1].group)}}})
			case "execute":
				err = e.cmd(n, id, &pdkg.DKGCommand{Command: &pdkg.DKGCommand_Execute{Execute: &pdkg.ExecutionOptions{}}})
				if err == nil {
					// an execution started with whoever had accepted by then: the membership the rest of the
					// history assumes may no longer hold. Let it run out (the store observers keep judging) and stop.
					time.Sleep(e.dkgDuration() + 3*time.Second)
					e.rec.Count("probe:dkgsm_ended_by_an_execution", 1)
					res.NonTrivial = true
					return
				}
			case "abort":
				err = e.cmd(n, id, &pdkg.DKGCommand{Command: &pdkg.DKGCommand_Abort{Abort: &pdkg.AbortOptions{}}})
			default:
				// a resharing proposal from node n with one planted defect (or none)
				opts := &pdkg.ProposalOptions{Timeout: timestamppb.New(future), Threshold: uint32(cc.epochs[len(cc.epochs)-1].group.Threshold), CatchupPeriodSeconds: uint32(e.sc.CatchupS)}
				for _, i := range members {
					opts.Remaining = append(opts.Remaining, e.participant(e.nodes[i], id))
				}
				inGroup := false
				for _, i := range members {
					inGroup = inGroup || i == st.Node
				}
				switch st.S {
				case "reshare_ok":
					mustFail = !inGroup
				case "reshare_ok_leaver":
					// a legal proposal in which the last member (not the proposer) leaves
					mustFail = !inGroup
					pt := cc.epochs[len(cc.epochs)-1].group.Threshold
					if k := len(opts.Remaining); k-1 >= pt && k >= 3 {
						last := opts.Remaining[k-1]
						if last.Address == n.addr {
							last = opts.Remaining[k-2]
							opts.Remaining = append(opts.Remaining[:k-2], opts.Remaining[k-1])
						} else {
							opts.Remaining = opts.Remaining[:k-1]
						}
						opts.Leaving = []*pdkg.Participant{last}
						if int(opts.Threshold) > len(opts.Remaining) {
							opts.Threshold = uint32(len(opts.Remaining))
						}
					}
				case "reshare_low_threshold":
					opts.Threshold = 1
					mustFail = len(members) > 1
				case "reshare_high_threshold":
					opts.Threshold = uint32(len(members) + 1)
					mustFail = true
				case "reshare_expired":
					opts.Timeout = timestamppb.New(time.Now().Add(-time.Minute))
					mustFail = true
				case "reshare_drop_member":
					if len(opts.Remaining) > 2 {
						opts.Remaining = opts.Remaining[:len(opts.Remaining)-1]
						mustFail = true
					}
				case "reshare_leader_leaves":
					opts.Leaving = []*pdkg.Participant{e.participant(n, id)}
					rem := opts.Remaining[:0]
					for _, p := range opts.Remaining {
						if p.Address != n.addr {
							rem = append(rem, p)
						}
					}
					opts.Remaining = rem
					mustFail = true
				case "reshare_few_remainers":
					// fewer remaining members than the threshold of the group that holds the secret, the number
					// made up by a joiner: the old shares cannot hand the secret over
					pt := cc.epochs[len(cc.epochs)-1].group.Threshold
					if e.sc.Extra > 0 && inGroup && pt >= 2 && len(opts.Remaining) >= pt {
						var rem, leave []*pdkg.Participant
						rem = append(rem, e.participant(n, id))
						for _, p := range opts.Remaining {
							switch {
							case p.Address == n.addr:
							case len(rem) < pt-1:
								rem = append(rem, p)
							default:
								leave = append(leave, p)
							}
						}
						opts.Remaining, opts.Leaving = rem, leave
						opts.Joining = []*pdkg.Participant{e.participant(e.nodes[e.sc.N], id)}
						opts.Threshold = uint32(len(rem) + 1)
						mustFail = true
					}
				case "reshare_unknown_remainer":
					if e.sc.Extra > 0 {
						opts.Remaining = append(opts.Remaining, e.participant(e.nodes[e.sc.N], id))
						mustFail = true
					}
				}
				err = e.cmd(n, id, &pdkg.DKGCommand{Command: &pdkg.DKGCommand_Resharing{Resharing: opts}})
				if err == nil && (st.S == "reshare_ok" || st.S == "reshare_ok_leaver") {
					// leave it pending for the following steps (accepts, aborts, forgeries), then abort
					e.pendingLeader = n
				}
			}
		case "forge":
			var unauth bool
			err, unauth, mustFail = e.forge(n, st, curEpoch, members, future)
			label = "forge:" + st.S
			if !unauth {
				continue
			}
			time.Sleep(1500 * time.Millisecond)
			after := e.dkgSnapshot(n)
			e.rec.Count("dkgstep:"+label, 1)
			if mustFail && err == nil {
				e.rec.Violate("C09", "unauthentic-packet-acknowledged", st.S, "node %s: the forged packet (%s) was acknowledged without error", n.addr, st.S)
			}
			if !before.equal(after) {
				e.rec.Violate("C09", "unauthentic-packet-changed-state", st.S, "node %s: the forged packet (%s) changed its DKG records (returned err=%v)", n.addr, st.S, err)
				res.NonTrivial = true
				return // the node now sits on an attacker's proposal: whatever follows is a consequence
			}
			continue
		case "race":
			// an operator command on one node and the leader's abort start within the same instants
			if e.pendingLeader == nil {
				continue
			}
			var follower *dNode
			for _, i := range members {
				if e.nodes[i] != e.pendingLeader && e.nodes[i].up {
					follower = e.nodes[i]
				}
			}
			if follower == nil {
				continue
			}
			lead := e.pendingLeader
			e.pendingLeader = nil
			done := make(chan struct{}, 2)
			go func() {
				var c *pdkg.DKGCommand
				if st.S == "reject" {
					c = &pdkg.DKGCommand{Command: &pdkg.DKGCommand_Reject{Reject: &pdkg.RejectOptions{}}}
				} else {
					c = &pdkg.DKGCommand{Command: &pdkg.DKGCommand_Accept{Accept: &pdkg.AcceptOptions{}}}
				}
				_ = e.cmd(follower, id, c)
				done <- struct{}{}
			}()
			go func() {
				time.Sleep(time.Duration(st.A) * time.Microsecond)
				_ = e.cmd(lead, id, &pdkg.DKGCommand{Command: &pdkg.DKGCommand_Abort{Abort: &pdkg.AbortOptions{}}})
				done <- struct{}{}
			}()
			<-done
			<-done
			e.rec.Count("dkgstep:race-ran", 1)
			time.Sleep(2 * time.Second)
			continue
		case "intercept":
			// the attacker holds the victim's links while the leader proposes, takes the genuine proposal
			// off the wire, changes it and is the first to hand it to the victim
			if e.pendingLeader != nil || len(members) < 3 {
				continue
			}
			lead := e.nodes[members[0]]
			victim := e.nodes[members[len(members)-1]]
			if !lead.up || !victim.up || victim == lead {
				continue
			}
			var rest []string
			for _, x := range e.nodes {
				if x != victim {
					rest = append(rest, x.addr)
				}
			}
			e.w.Partition([]string{victim.addr}, rest)
			bv := e.dkgSnapshot(victim)
			opts := &pdkg.ProposalOptions{Timeout: timestamppb.New(future), Threshold: uint32(cc.epochs[len(cc.epochs)-1].group.Threshold), CatchupPeriodSeconds: uint32(e.sc.CatchupS)}
			for _, i := range members {
				opts.Remaining = append(opts.Remaining, e.participant(e.nodes[i], id))
			}
			go func() {
				_ = e.cmd(lead, id, &pdkg.DKGCommand{Command: &pdkg.DKGCommand_Resharing{Resharing: opts}})
			}()
			time.Sleep(300 * time.Millisecond)
			g := e.lastGenuine("proposal")
			e.w.Heal()
			if g == nil || g.GetProposal() == nil || g.GetProposal().Epoch != curEpoch+1 {
				time.Sleep(8 * time.Second)
				_ = e.cmd(lead, id, &pdkg.DKGCommand{Command: &pdkg.DKGCommand_Abort{Abort: &pdkg.AbortOptions{}}})
				continue
			}
			p := g.GetProposal()
			switch st.S {
			case "move_remaining_to_leaving":
				if n := len(p.Remaining); n >= 3 {
					p.Leaving = append([]*pdkg.Participant{p.Remaining[n-1]}, p.Leaving...)
					p.Remaining = p.Remaining[:n-1]
				}
			case "threshold":
				p.Threshold++
			case "timeout":
				p.Timeout = timestamppb.New(p.Timeout.AsTime().Add(time.Hour))
			case "catchup":
				p.CatchupPeriodSeconds++
			case "swap_remaining":
				if n := len(p.Remaining); n >= 3 {
					p.Remaining[n-1], p.Remaining[n-2] = p.Remaining[n-2], p.Remaining[n-1]
				}
			}
			ferr := e.sendGossip(victim, g, "forge-intercept-"+st.S)
			time.Sleep(200 * time.Millisecond)
			av := e.dkgSnapshot(victim)
			e.rec.Count("dkgstep:intercept-ran:"+st.S, 1)
			if !bv.equal(av) {
				// was it the genuine packet arriving first (the leader retries)? the stored terms tell
				victim.mu.Lock()
				ds := victim.dkgStore
				victim.mu.Unlock()
				cur, _ := ds.GetCurrent(id)
				forgedTook := cur != nil && (int(cur.Threshold) != int(opts.Threshold) || len(cur.Leaving) != 0 || !cur.Timeout.Equal(opts.Timeout.AsTime()) ||
					int(cur.CatchupPeriod.Seconds()) != int(opts.CatchupPeriodSeconds) || (len(cur.Remaining) == len(opts.Remaining) && cur.Remaining[len(cur.Remaining)-1].Address != opts.Remaining[len(opts.Remaining)-1].Address))
				if forgedTook {
					e.rec.Violate("C09", "unauthentic-packet-changed-state", "intercepted-proposal-"+st.S, "node %s applied a proposal whose terms (%s) are not the ones its leader signed (answer: %v)", victim.addr, st.S, ferr)
					res.NonTrivial = true
					return
				}
			}
			time.Sleep(8 * time.Second)
			_ = e.cmd(lead, id, &pdkg.DKGCommand{Command: &pdkg.DKGCommand_Abort{Abort: &pdkg.AbortOptions{}}})
			time.Sleep(2 * time.Second)
			continue
		case "accept_after_reject":
			// X rejects for real; then another member tells the leader that X accepts
			if e.pendingLeader == nil || len(members) < 3 {
				continue
			}
			lead := e.pendingLeader
			var x, sgn *dNode
			for _, i := range members {
				if e.nodes[i] != lead && e.nodes[i].up {
					if x == nil {
						x = e.nodes[i]
					} else if sgn == nil {
						sgn = e.nodes[i]
					}
				}
			}
			p := e.lastGenuine("proposal")
			if x == nil || sgn == nil || p == nil {
				continue
			}
			if st.A%2 == 0 {
				_ = e.cmd(x, id, &pdkg.DKGCommand{Command: &pdkg.DKGCommand_Reject{Reject: &pdkg.RejectOptions{}}})
				time.Sleep(time.Second)
			}
			bl := e.dkgSnapshot(lead)
			g := &pdkg.GossipPacket{Packet: &pdkg.GossipPacket_Accept{Accept: &pdkg.AcceptProposal{Acceptor: e.participant(x, id)}}}
			msg := dkg.VerifMessageForSigning(id, g, p.GetProposal())
			sig, _ := sgn.pairs[id].Scheme().AuthScheme.Sign(sgn.pairs[id].Key, msg)
			g.Metadata = &pdkg.GossipMetadata{BeaconID: id, Address: sgn.addr, Signature: sig}
			ferr := e.sendGossip(lead, g, "forge-accept-after-reject")
			time.Sleep(500 * time.Millisecond)
			e.rec.Count("dkgstep:accept_after_reject-ran", 1)
			if al := e.dkgSnapshot(lead); !bl.equal(al) {
				e.rec.Violate("C09", "unauthentic-packet-changed-state", "acceptance-sent-by-another-member", "leader %s changed its records on an acceptance for %s signed by %s (answer: %v)", lead.addr, x.addr, sgn.addr, ferr)
				res.NonTrivial = true
				return
			}
			continue
		case "flow":
			// clean up whatever is pending, then a complete valid resharing must go through
			// whoever proposed something that is still pending withdraws it (only a proposal's leader can)
			for _, i := range members {
				if e.nodes[i].up {
					_ = e.cmd(e.nodes[i], id, &pdkg.DKGCommand{Command: &pdkg.DKGCommand_Abort{Abort: &pdkg.AbortOptions{}}})
				}
			}
			e.pendingLeader = nil
			time.Sleep(3 * time.Second)
			epochsBefore := len(cc.epochs)
			e.reshare(id, &ResharePlan{NewT: cc.epochs[len(cc.epochs)-1].group.Threshold})
			if len(cc.epochs) == epochsBefore {
				e.rec.Violate("C08", "valid-reshare-after-failed-attempts-did-not-complete", "flow", "after the history so far (step %d) a valid resharing proposal did not complete", si)
			} else {
				e.rec.Count("probe:dkgsm_flow_completed", 1)
			}
			continue
		}
		time.Sleep(1500 * time.Millisecond)
		after := e.dkgSnapshot(n)
		e.rec.Count("dkgstep:"+label, 1)
		if err != nil {
			e.rec.Count("probe:dkgsm_rejected_steps", 1)
			// a refused command never touches the completed record; a command refused for what it asks
			// (not merely reporting that part of its gossip failed) leaves the current record alone too
			gossipOnly := strings.Contains(err.Error(), "error sending packet")
			if !bytes.Equal(before.fin, after.fin) || (!before.equal(after) && st.K == "cmd" && !gossipOnly) {
				e.rec.Violate("C08", "rejected-command-changed-state", st.S, "node %s: %s returned an error (%v) but its DKG records changed", n.addr, label, err)
			}
		}
		if mustFail && err == nil {
			e.rec.Violate("C08", "invalid-step-accepted", st.S, "node %s: %s was accepted", n.addr, label)
		}
	}
	if e.pendingLeader != nil {
		_ = e.cmd(e.pendingLeader, id, &pdkg.DKGCommand{Command: &pdkg.DKGCommand_Abort{Abort: &pdkg.AbortOptions{}}})
	}
	if e.keepIO {
		e.scanSecrets()
	}
	res.NonTrivial = true
}

// forge builds one unauthentic packet for victim n. It returns the victim's answer and
// whether the packet is unauthentic by the harness's definition (it always is, except
// for the positive control "genuine_replay_to_new_node").
// returns (answer, packet was built and is unauthentic, the answer must be an error)
func (e *daemonEngine) forge(n *dNode, st DKGStep, curEpoch uint32, members []int, future time.Time) (error, bool, bool) {
	id := "default"
	cc := e.chains[id]
	sign := func(kp *key.Pair, g *pdkg.GossipPacket, terms *pdkg.ProposalTerms, claimed string) {
		msg := dkg.VerifMessageForSigning(id, g, terms)
		sig, _ := kp.Scheme().AuthScheme.Sign(kp.Key, msg)
		g.Metadata = &pdkg.GossipMetadata{BeaconID: id, Address: claimed, Signature: sig}
	}
	switch st.S {
	case "proposal_with_shadow_joiner":
		// a resharing proposal in the leader's name that keeps every member with its true key and adds, among the
		// joiners, an entry carrying the leader's address with the attacker's key; signed with that key
		lead := -1
		for _, i := range members {
			if i != n.idx {
				lead = i
				break
			}
		}
		if lead < 0 {
			return nil, false, false
		}
		ordered := []int{lead}
		for _, i := range members {
			if i != lead {
				ordered = append(ordered, i)
			}
		}
		terms := e.reshareTerms(curEpoch+1, ordered, future, cc.epochs[len(cc.epochs)-1].group.Threshold)
		kp, _ := seededPair(e.nodes[lead].addr, cc.sch, H64(e.sc.Seed, "shadow", st.A))
		ap, _ := participantOf(kp)
		terms.Joining = append(terms.Joining, ap)
		g := &pdkg.GossipPacket{Packet: &pdkg.GossipPacket_Proposal{Proposal: terms}}
		sign(kp, g, terms, e.nodes[lead].addr)
		return e.sendGossip(n, g, "forge-"+st.S), true, true
	case "proposal_by_attacker_key", "proposal_by_other_member_key":
		// a resharing proposal in the leader's name. Signed either with a fresh key that is also
		// written into the participant lists under the leader's address, or with another member's key.
		var rem []int
		for _, i := range members {
			rem = append(rem, i)
		}
		// the claimed leader: a member other than the victim
		lead := -1
		for _, i := range members {
			if i != n.idx {
				lead = i
				break
			}
		}
		if lead < 0 {
			return nil, false, false
		}
		// leader first
		ordered := []int{lead}
		for _, i := range rem {
			if i != lead {
				ordered = append(ordered, i)
			}
		}
		terms := e.reshareTerms(curEpoch+1, ordered, future, cc.epochs[len(cc.epochs)-1].group.Threshold)
		var kp *key.Pair
		if st.S == "proposal_by_attacker_key" {
			kp, _ = seededPair(e.nodes[lead].addr, cc.sch, H64(e.sc.Seed, "attacker", st.A))
			ap, _ := participantOf(kp)
			terms.Remaining[0], terms.Leader = ap, ap
		} else {
			other := ordered[len(ordered)-1]
			kp = e.nodes[other].pairs[id]
		}
		g := &pdkg.GossipPacket{Packet: &pdkg.GossipPacket_Proposal{Proposal: terms}}
		sign(kp, g, terms, e.nodes[lead].addr)
		return e.sendGossip(n, g, "forge-"+st.S), true, true
	case "accept_for_someone_else", "abort_by_non_leader", "execute_by_non_leader":
		// needs a pending proposal; packets are signed by a real member with its real key, about the real terms
		p := e.lastGenuine("proposal")
		if p == nil || e.pendingLeader == nil {
			return nil, false, false
		}
		terms := p.GetProposal()
		signer := -1
		for _, i := range members {
			if e.nodes[i] != e.pendingLeader && i != n.idx {
				signer = i
			}
		}
		if signer < 0 {
			return nil, false, false
		}
		g := &pdkg.GossipPacket{}
		claimed := e.nodes[signer].addr
		switch st.S {
		case "accept_for_someone_else":
			victimP := e.participant(n, id)
			g.Packet = &pdkg.GossipPacket_Accept{Accept: &pdkg.AcceptProposal{Acceptor: victimP}}
		case "abort_by_non_leader":
			g.Packet = &pdkg.GossipPacket_Abort{Abort: &pdkg.AbortDKG{Reason: "none"}}
		case "execute_by_non_leader":
			g.Packet = &pdkg.GossipPacket_Execute{Execute: &pdkg.StartExecution{Time: timestamppb.New(time.Now().Add(2 * time.Second))}}
		}
		sign(e.nodes[signer].pairs[id], g, terms, claimed)
		return e.sendGossip(n, g, "forge-"+st.S), true, true
	default:
		// single-field mutations of the last genuine packet, signature left as it was
		g := e.lastGenuine("")
		if g == nil {
			return nil, false, false
		}
		// make it new for the dedup set only when the mutation itself does not touch the signature
		switch st.S {
		case "mut_sender":
			for _, i := range members {
				if e.nodes[i].addr != g.Metadata.Address {
					g.Metadata.Address = e.nodes[i].addr
					break
				}
			}
		case "mut_sigbyte":
			g.Metadata.Signature = append([]byte(nil), g.Metadata.Signature...)
			g.Metadata.Signature[len(g.Metadata.Signature)-1] ^= 1
		case "mut_terms":
			if p := g.GetProposal(); p != nil {
				switch st.A % 5 {
				case 0:
					p.Threshold++
				case 1:
					p.Timeout = timestamppb.New(p.Timeout.AsTime().Add(time.Hour))
				case 2:
					p.CatchupPeriodSeconds++
				case 3:
					p.GenesisSeed = append([]byte{1}, p.GenesisSeed...)
				case 4:
					p.BeaconPeriodSeconds++
				}
			} else {
				return nil, false, false
			}
		default:
			return nil, false, false
		}
		if st.S != "mut_sigbyte" {
			// the dedup set is keyed by the signature bytes: a mutated packet with the same signature is
			// swallowed as a duplicate by nodes that saw the original (no state change, no error): fine either way
		}
		// a packet whose signature bytes were seen before is swallowed as a duplicate (no error, no change)
		return e.sendGossip(n, g, "forge-"+st.S), true, st.S == "mut_sigbyte"
	}
}

func participantOf(kp *key.Pair) (*pdkg.Participant, error) {
	k, err := kp.Public.Key.MarshalBinary()
	if err != nil {
		return nil, err
	}
	return &pdkg.Participant{Address: kp.Public.Addr, Key: k, Signature: kp.Public.Signature}, nil
}

var _ = context.Background
