// Package simsync provides mutexes whose blocking is "durable" for
// testing/synctest (they are built on sync.Cond, whose Wait is durably
// blocking, where sync.Mutex.Lock is not). The verification overlay
// substitutes them for sync.Mutex / sync.RWMutex in drand and bbolt.
// Every acquisition is also a schedule point: YieldHook, if set, is called
// with the call site before the lock is taken.
package simsync

import (
	"runtime"
	"strconv"
	"sync"
)

// YieldHook, when set, is called at every lock acquisition with the call site.
var YieldHook func(site string)

func yield() {
	if h := YieldHook; h != nil {
		_, f, l, _ := runtime.Caller(2)
		// keep only the last two path elements: stable across build dirs
		n := 0
		for i := len(f) - 1; i >= 0; i-- {
			if f[i] == '/' {
				n++
				if n == 2 {
					f = f[i+1:]
					break
				}
			}
		}
		h(f + ":" + strconv.Itoa(l))
	}
}

type Mutex struct {
	mu     sync.Mutex
	c      *sync.Cond
	locked bool
}

func (m *Mutex) cond() *sync.Cond {
	if m.c == nil {
		m.c = sync.NewCond(&m.mu)
	}
	return m.c
}

func (m *Mutex) Lock() {
	yield()
	m.mu.Lock()
	c := m.cond()
	for m.locked {
		c.Wait()
	}
	m.locked = true
	m.mu.Unlock()
}

func (m *Mutex) TryLock() bool {
	m.mu.Lock()
	defer m.mu.Unlock()
	if m.locked {
		return false
	}
	m.locked = true
	return true
}

func (m *Mutex) Unlock() {
	m.mu.Lock()
	if !m.locked {
		m.mu.Unlock()
		panic("simsync: unlock of unlocked mutex")
	}
	m.locked = false
	m.cond().Broadcast()
	m.mu.Unlock()
}

type RWMutex struct {
	mu       sync.Mutex
	c        *sync.Cond
	readers  int
	writer   bool
	wwaiting int
}

func (m *RWMutex) cond() *sync.Cond {
	if m.c == nil {
		m.c = sync.NewCond(&m.mu)
	}
	return m.c
}

func (m *RWMutex) Lock() {
	yield()
	m.mu.Lock()
	c := m.cond()
	m.wwaiting++
	for m.writer || m.readers > 0 {
		c.Wait()
	}
	m.wwaiting--
	m.writer = true
	m.mu.Unlock()
}

func (m *RWMutex) TryLock() bool {
	m.mu.Lock()
	defer m.mu.Unlock()
	if m.writer || m.readers > 0 {
		return false
	}
	m.writer = true
	return true
}

func (m *RWMutex) Unlock() {
	m.mu.Lock()
	if !m.writer {
		m.mu.Unlock()
		panic("simsync: Unlock of unlocked RWMutex")
	}
	m.writer = false
	m.cond().Broadcast()
	m.mu.Unlock()
}

// RLock follows sync.RWMutex: a waiting writer blocks new readers.
func (m *RWMutex) RLock() {
	yield()
	m.mu.Lock()
	c := m.cond()
	for m.writer || m.wwaiting > 0 {
		c.Wait()
	}
	m.readers++
	m.mu.Unlock()
}

func (m *RWMutex) TryRLock() bool {
	m.mu.Lock()
	defer m.mu.Unlock()
	if m.writer || m.wwaiting > 0 {
		return false
	}
	m.readers++
	return true
}

func (m *RWMutex) RUnlock() {
	m.mu.Lock()
	if m.readers <= 0 {
		m.mu.Unlock()
		panic("simsync: RUnlock of unlocked RWMutex")
	}
	m.readers--
	m.cond().Broadcast()
	m.mu.Unlock()
}

func (m *RWMutex) RLocker() sync.Locker { return rlocker{m} }

type rlocker struct{ m *RWMutex }

func (r rlocker) Lock()   { r.m.RLock() }
func (r rlocker) Unlock() { r.m.RUnlock() }

// Once is sync.Once on a durable mutex: a second caller waits (durably) for the
// first one's function to finish, as with sync.Once.
type Once struct {
	m    Mutex
	done bool
}

func (o *Once) Do(f func()) {
	o.m.Lock()
	defer o.m.Unlock()
	if !o.done {
		defer func() { o.done = true }()
		f()
	}
}
