// Package simrt holds the few runtime hooks the verification overlay plants
// in drand (off unless the simulator sets them): schedule points and the
// replacement of math/rand's global permutation.
package simrt

import "math/rand"

// YieldHook is called at planted schedule points with the site label.
var YieldHook func(site string)

// PermHook replaces rand.Perm when set.
var PermHook func(n int) []int

func Yield(site string) {
	if h := YieldHook; h != nil {
		h(site)
	}
}

func Perm(n int) []int {
	if h := PermHook; h != nil {
		return h(n)
	}
	return rand.Perm(n)
}
