// Package simrt holds the few runtime hooks the verification overlay plants
// in drand (off unless the simulator sets them): schedule points and the
// replacement of math/rand's global permutation.
package simrt

import (
	"io"
	"math/rand"
	"os"
)

// YieldHook is called at planted schedule points with the site label.
var YieldHook func(site string)

// PermHook replaces rand.Perm when set.
var PermHook func(n int) []int

func Yield(site string) {
	if h := YieldHook; h != nil {
		h(site)
	}
}

func Perm(n int) []int {
	if h := PermHook; h != nil {
		return h(n)
	}
	return rand.Perm(n)
}

// FileHook, when set, is told about the file-level steps of the code that writes key, group and
// share files: "create" / "open" (after the call; trunc tells whether the file was emptied),
// "write" (before the call: the return value is how many of the n bytes may be written; fewer
// than n means a torn write, after which "torn" is called and is expected not to return),
// "written" (after a complete write), "remove" and "rename" (after the call, path = the new name).
var FileHook func(op, path string, n int, trunc bool) int

func Create(name string) (*os.File, error) {
	f, err := os.Create(name)
	if h := FileHook; h != nil && err == nil {
		h("create", name, 0, true)
	}
	return f, err
}

func OpenFile(name string, flag int, perm os.FileMode) (*os.File, error) {
	f, err := os.OpenFile(name, flag, perm)
	if h := FileHook; h != nil && err == nil && flag&(os.O_WRONLY|os.O_RDWR) != 0 {
		h("open", name, 0, flag&os.O_TRUNC != 0)
	}
	return f, err
}

func Rename(oldpath, newpath string) error {
	err := os.Rename(oldpath, newpath)
	if h := FileHook; h != nil && err == nil {
		h("rename", newpath, 0, false)
	}
	return err
}

type hookedWriter struct{ f *os.File }

// W wraps a file handed to an encoder so that its writes are visible to FileHook.
func W(w io.Writer) io.Writer {
	if f, ok := w.(*os.File); ok && FileHook != nil {
		return &hookedWriter{f}
	}
	return w
}

func (w *hookedWriter) Write(p []byte) (int, error) {
	if h := FileHook; h != nil {
		if n := h("write", w.f.Name(), len(p), false); n >= 0 && n < len(p) {
			k, err := w.f.Write(p[:n])
			h("torn", w.f.Name(), k, false)
			return k, err
		}
	}
	n, err := w.f.Write(p)
	if h := FileHook; h != nil && err == nil {
		h("written", w.f.Name(), n, false)
	}
	return n, err
}

func Remove(name string) error {
	err := os.Remove(name)
	if h := FileHook; h != nil && err == nil {
		h("remove", name, 0, false)
	}
	return err
}
