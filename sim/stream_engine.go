package zverif

// E-stream: the real store decorator stack (discrepancy -> scheme -> append ->
// callback store over a real base store) serving real beacon.SyncChain calls to
// simulated stream objects whose Send the scenario slows down, holds or
// cancels, while a writer appends new beacons (C11, C12a). And the aggregator's
// partial cache under floods (C12b).

import (
	"bytes"
	"context"
	"errors"
	"fmt"
	"io"
	"os"
	"sort"
	"sync"
	"testing"
	"testing/synctest"
	"time"

	"google.golang.org/grpc/peer"

	"github.com/drand/drand/v2/common"
	"github.com/drand/drand/v2/common/key"
	dlog "github.com/drand/drand/v2/common/log"
	"github.com/drand/drand/v2/crypto"
	"github.com/drand/drand/v2/internal/chain"
	"github.com/drand/drand/v2/internal/chain/beacon"
	"github.com/drand/drand/v2/internal/chain/boltdb"
	"github.com/drand/drand/v2/internal/chain/memdb"
	"github.com/drand/drand/v2/protobuf/drand"
)

type StreamPlan struct {
	From        uint64 `json:"from"`
	StartUs     int64  `json:"start_us"`
	SendUs      int64  `json:"send_us"`      // every Send takes this long
	HoldAt      int    `json:"hold_at"`      // the Send of item #HoldAt (0-based) is held ... (-1: none)
	HoldUs      int64  `json:"hold_us"`      // ... for this long (<0: for ever: a consumer that stopped reading)
	CancelAfter int    `json:"cancel_after"` // client goes away after that many items (-1: never)
	Addr        string `json:"addr"`
}

type PutPlan struct {
	AtUs  int64 `json:"at_us"`
	Count int   `json:"count"`
	GapUs int64 `json:"gap_us"`
	Race  bool  `json:"race,omitempty"` // a second writer stores the same round a nanosecond later
}

type StreamScenario struct {
	Engine  string       `json:"engine"`
	Prop    string       `json:"prop"`
	Seed    uint64       `json:"seed"`
	Backend string       `json:"backend"`
	Chained bool         `json:"chained"`
	MemSize int          `json:"mem_size,omitempty"`
	Preload int          `json:"preload"`
	Puts    []PutPlan    `json:"puts"`
	Streams []StreamPlan `json:"streams"`
	Yield   YieldPlan    `json:"yield"`
	Cache   *CacheScenario `json:"cache,omitempty"` // C12b mode: drive the partial cache instead
}

type gatedStream struct {
	e      *streamEngine
	id     int
	plan   StreamPlan
	ctx    context.Context
	cancel context.CancelFunc
	mu     sync.Mutex
	got    []uint64
	gotAt  []time.Time // when the Send of each item returned (or began to hold)
	openAt time.Time
	headAtOpen uint64
	held   bool // currently inside a for-ever hold
	inScan bool
	ended  bool
	err    error
}

func (s *gatedStream) Context() context.Context { return s.ctx }

func (s *gatedStream) Send(p *drand.BeaconPacket) error {
	e := s.e
	s.mu.Lock()
	i := len(s.got)
	s.got = append(s.got, p.Round)
	s.mu.Unlock()
	e.rec.Ev("send_item", fmt.Sprint(s.id), "round=%d", p.Round)
	// C11: each delivered beacon equals the stored one
	if !bytes.Equal(p.Signature, synthSig(e.sc.Seed, p.Round)) {
		e.rec.Violate("C11", "stream-item-differs-from-store", "item", "stream %d: item for round %d does not carry the stored signature", s.id, p.Round)
	}
	if e.sc.Chained && p.Round > 0 && !bytes.Equal(p.PreviousSignature, synthSig(e.sc.Seed, p.Round-1)) {
		e.rec.Violate("C11", "stream-item-differs-from-store", "prev", "stream %d: item for round %d does not carry the stored previous signature", s.id, p.Round)
	}
	if s.plan.SendUs > 0 {
		time.Sleep(time.Duration(s.plan.SendUs) * time.Microsecond)
	}
	defer func() {
		s.mu.Lock()
		s.gotAt = append(s.gotAt, time.Now())
		s.mu.Unlock()
	}()
	if i == s.plan.HoldAt {
		if s.plan.HoldUs < 0 {
			s.mu.Lock()
			s.held = true
			s.mu.Unlock()
			e.rec.Count("fault:consumer_stops_reading", 1)
			<-s.ctx.Done()
			return s.ctx.Err()
		}
		e.rec.Count("fault:consumer_slow", 1)
		time.Sleep(time.Duration(s.plan.HoldUs) * time.Microsecond)
	}
	if s.plan.CancelAfter >= 0 && i+1 >= s.plan.CancelAfter {
		e.rec.Count("fault:consumer_disconnects", 1)
		s.cancel()
	}
	return s.ctx.Err()
}

// cursorSpy records when read transactions (cursors) are open on the base store.
type cursorSpy struct {
	chain.Store
	mu    sync.Mutex
	spans [][2]time.Time // [start, end); end zero while open
}

func (c *cursorSpy) Cursor(ctx context.Context, fn func(context.Context, chain.Cursor) error) error {
	c.mu.Lock()
	i := len(c.spans)
	c.spans = append(c.spans, [2]time.Time{time.Now(), {}})
	c.mu.Unlock()
	defer func() {
		c.mu.Lock()
		c.spans[i][1] = time.Now()
		c.mu.Unlock()
	}()
	return c.Store.Cursor(ctx, fn)
}

// openDuring: a cursor was open at some instant of [from, to] (to zero: for ever).
func (c *cursorSpy) openDuring(from, to time.Time) bool {
	c.mu.Lock()
	defer c.mu.Unlock()
	for _, s := range c.spans {
		if !to.IsZero() && s[0].After(to) {
			continue
		}
		if !s[1].IsZero() && s[1].Before(from) {
			continue
		}
		return true
	}
	return false
}

type putObs struct {
	round    uint64
	start    time.Time
	end      time.Time
	returned bool
	raced    bool // a second writer stored the same round concurrently
	err      error
}

type streamEngine struct {
	sc      *StreamScenario
	rec     *Recorder
	st      beacon.CallbackStore
	spy     *cursorSpy
	streams []*gatedStream
	mu      sync.Mutex
	puts    []*putObs
	head    uint64
}

func synthSig(seed uint64, round uint64) []byte {
	b := make([]byte, 96)
	for i := 0; i < 96; i += 8 {
		v := H64(seed, "synth", round, i)
		for j := 0; j < 8; j++ {
			b[i+j] = byte(v >> (8 * j))
		}
	}
	return b
}

func (e *streamEngine) beaconOf(r uint64) *common.Beacon {
	b := &common.Beacon{Round: r, Signature: synthSig(e.sc.Seed, r)}
	if r > 0 {
		b.PreviousSig = synthSig(e.sc.Seed, r-1)
	}
	return b
}

func RunStream(t *testing.T, sc *StreamScenario, dump io.Writer) (res RunResult) {
	wall := time.Now()
	res = RunResult{Seed: sc.Seed, Engine: "stream", Prop: sc.Prop}
	dir, err := os.MkdirTemp(tmpRoot(), "zv-stream-")
	if err != nil {
		res.HarnessErr = err.Error()
		return
	}
	defer os.RemoveAll(dir)
	rec := NewRecorder(true)
	func() {
		defer func() {
			if p := recover(); p != nil {
				res.BubblePanic = fmt.Sprint(p)
			}
		}()
		synctest.Test(t, func(t *testing.T) {
			InstallYields(sc.Yield, rec)
			defer UninstallYields()
			e := &streamEngine{sc: sc, rec: rec}
			if sc.Cache != nil {
				e.runCache(sc.Cache, &res)
				return
			}
			e.body(dir, &res)
		})
	}()
	UninstallYields()
	res.Violations = rec.Violations()
	res.Counters = rec.Counters()
	res.LogHash, res.Events = rec.LogHash()
	res.Sig = rec.Signature()
	res.WallMs = time.Since(wall).Milliseconds()
	if f, ok := dump.(*os.File); ok && f != nil {
		rec.Dump(f)
	}
	if res.BubblePanic != "" && !isLeftoverPanic(res.BubblePanic) {
		res.HarnessErr = "panic: " + res.BubblePanic
	}
	return
}

func (e *streamEngine) body(dir string, res *RunResult) {
	sc := e.sc
	start := time.Now()
	schName := crypto.UnchainedSchemeID
	if sc.Chained {
		schName = crypto.DefaultSchemeID
	}
	sch, _ := crypto.SchemeFromName(schName)
	ctx := context.Background()
	if sc.Chained {
		ctx = chain.SetPreviousRequiredOnContext(ctx)
	}
	lg, _ := NewNodeLogger(e.rec, "srv", dlog.DebugLevel, false, nil, nil)
	var base chain.Store
	var err error
	switch sc.Backend {
	case "memdb":
		base = memdb.NewStore(sc.MemSize)
	case "bolt":
		base, err = boltdb.NewBoltStore(boltdb.IsATest(ctx), lg, dir)
	default:
		base, err = boltdb.NewBoltStore(ctx, lg, dir)
	}
	if err != nil {
		res.HarnessErr = "open: " + err.Error()
		return
	}
	e.spy = &cursorSpy{Store: base}
	base = e.spy
	if err := base.Put(ctx, e.beaconOf(0)); err != nil {
		res.HarnessErr = "genesis: " + err.Error()
		return
	}
	group := &key.Group{Threshold: 1, Period: time.Second, Scheme: sch, ID: "default", GenesisTime: start.Unix(), Nodes: []*key.Node{}}
	e.st, err = beacon.VerifNewStoreStack(ctx, lg, base, group, NewSimClock(0, 1))
	if err != nil {
		res.HarnessErr = "stack: " + err.Error()
		return
	}
	for r := uint64(1); r <= uint64(sc.Preload); r++ {
		if err := e.st.Put(ctx, e.beaconOf(r)); err != nil {
			res.HarnessErr = fmt.Sprintf("preload %d: %v", r, err)
			return
		}
	}
	e.head = uint64(sc.Preload)
	// the chain store's own consumer of new beacons (as newChainStore registers it)
	agg := make(chan *common.Beacon, 100)
	e.st.AddCallback("chainstore", func(b *common.Beacon, closed bool) {
		if !closed {
			agg <- b
		}
	})
	go func() {
		for range agg {
		}
	}()
	var wg sync.WaitGroup
	// streams
	for i, p := range sc.Streams {
		cctx, cancel := context.WithCancel(peer.NewContext(context.Background(), &peer.Peer{Addr: simAddr(p.Addr)}))
		s := &gatedStream{e: e, id: i, plan: p, ctx: cctx, cancel: cancel}
		e.streams = append(e.streams, s)
		wg.Add(1)
		go func() {
			defer wg.Done()
			time.Sleep(time.Until(start.Add(time.Duration(p.StartUs) * time.Microsecond)))
			e.rec.Ev("stream_open", fmt.Sprint(s.id), "from=%d", p.From)
			hao := uint64(0)
			if l, err := e.st.Last(ctx); err == nil {
				hao = l.Round
			}
			s.mu.Lock()
			s.openAt, s.headAtOpen = time.Now(), hao
			s.mu.Unlock()
			err := beacon.SyncChain(lg, e.st, &drand.SyncRequest{FromRound: p.From, Metadata: &drand.Metadata{BeaconID: "default"}}, s)
			s.mu.Lock()
			s.ended, s.err = true, err
			s.mu.Unlock()
			e.rec.Ev("stream_end", fmt.Sprint(s.id), "err=%v", err)
		}()
	}
	// writer (the aggregator's role): sequential appends
	writerDone := make(chan struct{})
	go func() {
		defer close(writerDone)
		for _, pp := range sc.Puts {
			time.Sleep(time.Until(start.Add(time.Duration(pp.AtUs) * time.Microsecond)))
			for k := 0; k < pp.Count; k++ {
				e.mu.Lock()
				r := e.head + 1
				o := &putObs{round: r, start: time.Now(), raced: pp.Race}
				e.puts = append(e.puts, o)
				e.mu.Unlock()
				if pp.Race {
					go func() {
						time.Sleep(time.Nanosecond)
						err := e.st.Put(ctx, e.beaconOf(r))
						if err != nil && !errors.Is(err, beacon.ErrBeaconAlreadyStored) {
							e.rec.Ev("race_put_err", "w2", "round=%d %v", r, err)
						}
						e.rec.Count("probe:racing_second_writer", 1)
					}()
				}
				e.rec.Ev("put_start", "w", "round=%d", r)
				err := e.st.Put(ctx, e.beaconOf(r))
				e.mu.Lock()
				o.end, o.returned, o.err = time.Now(), true, err
				if l, lerr := e.st.Last(ctx); lerr == nil && l.Round > e.head {
					e.head = l.Round // whoever of the racing writers stored it
				}
				e.mu.Unlock()
				e.rec.Ev("put_end", "w", "round=%d err=%v", r, err != nil)
				if pp.GapUs > 0 {
					time.Sleep(time.Duration(pp.GapUs) * time.Microsecond)
				}
			}
		}
	}()
	// let everything play out
	time.Sleep(30 * time.Second)
	synctest.Wait()
	res.VirtualMs = time.Since(start).Milliseconds()
	e.check(res)
	for _, s := range e.streams {
		s.cancel()
	}
	time.Sleep(time.Second)
	synctest.Wait()
	select {
	case <-writerDone:
		_ = e.st.Close()
	default:
		// the writer is still inside Put: closing would wait on it
	}
}

func (e *streamEngine) check(res *RunResult) {
	sc := e.sc
	e.mu.Lock()
	head := e.head
	puts := append([]*putObs(nil), e.puts...)
	e.mu.Unlock()
	stalledLive, stalledScan := 0, 0
	for _, s := range e.streams {
		s.mu.Lock()
		if s.held {
			if len(s.got) > 0 && s.got[len(s.got)-1] <= uint64(sc.Preload) && s.plan.From > 0 {
				stalledScan++
			} else {
				stalledLive++
			}
		}
		s.mu.Unlock()
	}
	// C12a: Put never waits on a consumer. The known ways in which it does are
	// told apart by the history, with numbers fixed here (not read from the code):
	// the shipped callback queue holds 100 beacons per consumer.
	const shippedQueue = 100
	classify := func(o *putObs) string {
		// (1) a read transaction of a stream's catch-up scan was open while the Put was in progress
		end := o.end
		if !o.returned {
			end = time.Time{}
		}
		if sc.Backend != "memdb" && e.spy.openDuring(o.start, end) {
			return "consumer-inside-bolt-cursor-scan"
		}
		// (2) a sluggish consumer in live delivery and more than the shipped queue of beacons since
		slowLive := false
		for _, s := range e.streams {
			if s.plan.SendUs > 0 || s.plan.HoldAt >= 0 || s.plan.CancelAfter >= 0 {
				slowLive = true
			}
		}
		if slowLive && int(o.round)-sc.Preload > shippedQueue {
			return "consumer-queue-of-100-full"
		}
		return "other"
	}
	for _, o := range puts {
		if !o.returned {
			e.rec.Violate("C12", "put-blocked-by-consumer", classify(o), "Put of round %d never returned (preload %d, %s)", o.round, sc.Preload, sc.Backend)
			break
		}
		if d := o.end.Sub(o.start); d > time.Millisecond {
			e.rec.Violate("C12", "put-waited-on-consumer", classify(o), "Put of round %d took %s of virtual time (preload %d, %s)", o.round, d, sc.Preload, sc.Backend)
			break
		}
		if o.err != nil && !errors.Is(o.err, beacon.ErrBeaconAlreadyStored) && !o.raced {
			e.rec.Violate("C12", "put-failed", "err", "Put of round %d failed: %v", o.round, o.err)
		}
	}
	// C11: per stream
	allReturned := true
	putStart, putEnd := map[uint64]time.Time{}, map[uint64]time.Time{}
	for _, o := range puts {
		if !o.returned {
			allReturned = false
		}
		putStart[o.round] = o.start
		putEnd[o.round] = o.end
	}
	sameAddr := map[string]int{}
	for _, s := range e.streams {
		sameAddr[s.plan.Addr]++
	}
	oldest := uint64(0)
	if sc.Backend == "memdb" && head+1 > uint64(sc.MemSize) {
		oldest = head + 1 - uint64(sc.MemSize)
	}
	for i, s := range e.streams {
		s.mu.Lock()
		got := append([]uint64(nil), s.got...)
		gotAt := append([]time.Time(nil), s.gotAt...)
		ended, held, serr, headAtOpen, openAt := s.ended, s.held, s.err, s.headAtOpen, s.openAt
		s.mu.Unlock()
		if sc.Backend == "memdb" && s.plan.From > 0 && s.plan.From <= oldest+uint64(len(puts))+1 {
			// the ring may have forgotten the requested round before the scan reached it:
			// the statement speaks of stored rounds only
			e.rec.Count("probe:stream_from_evicted_round_skipped", 1)
			continue
		}
		// end of the catch-up scan: the Send of the last item that was already stored
		// when the stream opened has returned
		scanEnd := openAt
		for k, r := range got {
			if r <= headAtOpen && k < len(gotAt) {
				scanEnd = gotAt[k]
			}
		}
		// lostInHandover: rounds stored while the catch-up scan was still running (or in
		// the instant between its end and the registration of the live callback)
		lostInHandover := func(lo, hi uint64) bool { // rounds lo..hi inclusive are missing
			for r := lo; r <= hi; r++ {
				ps, ok := putStart[r]
				// the Put overlaps [stream opened, scan ended (+ registration)]
				if !ok || putEnd[r].Before(openAt) || ps.After(scanEnd.Add(100*time.Microsecond)) {
					return false
				}
			}
			return true
		}
		for k := 1; k < len(got); k++ {
			if got[k] != got[k-1]+1 {
				kind := "skipped"
				if got[k] <= got[k-1] {
					kind = "repeated-or-reordered"
				} else if lostInHandover(got[k-1]+1, got[k]-1) {
					kind = "stored-during-catchup-scan"
				}
				e.rec.Violate("C11", "stream-not-consecutive", kind, "stream %d (from %d, %s): round %d delivered after round %d; sequence %v", i, s.plan.From, sc.Backend, got[k], got[k-1], tailOf(got, k))
				break
			}
		}
		if len(got) > 0 && s.plan.From > 0 && got[0] != s.plan.From {
			e.rec.Violate("C11", "stream-first-round", "first", "stream %d asked from %d, first item is round %d", i, s.plan.From, got[0])
		}
		healthy := !held && s.plan.CancelAfter < 0 && s.plan.HoldUs >= 0
		if sameAddr[s.plan.Addr] > 1 && ended && errors.Is(serr, beacon.ErrCallbackReplaced) {
			healthy = false // replaced by another connection from the same address: it ends, as stated
			e.rec.Count("probe:stream_replaced", 1)
		}
		if healthy && allReturned && stalledScan == 0 && s.plan.From <= headAtOpen {
			// a stream that is still open must have been handed everything up to the head
			last := uint64(0)
			if len(got) > 0 {
				last = got[len(got)-1]
			}
			if ended {
				e.rec.Violate("C11", "healthy-stream-ended", "ended", "stream %d (from %d) ended by itself: %v", i, s.plan.From, serr)
			} else if s.plan.From > 0 && last != head {
				kind := "tail"
				if last > 0 && last < head && lostInHandover(last+1, head) {
					kind = "stored-during-catchup-scan"
				}
				for j, o := range e.streams {
					// another connection from the same address went away after this one opened:
					// its RemoveCallback(id) removes the callback registered under the shared id
					if j != i && o.plan.Addr == s.plan.Addr && (o.plan.CancelAfter >= 0) {
						kind = "callback-removed-by-other-stream-of-same-address"
					}
				}
				e.rec.Violate("C11", "stream-stops-short", kind, "stream %d (from %d, %s) is open and idle but its last item is round %d, store head is %d", i, s.plan.From, sc.Backend, last, head)
			} else if s.plan.From == 0 && len(got) > 0 && last != head {
				e.rec.Violate("C11", "stream-stops-short", "tail-live", "live stream %d is open and idle but its last item is round %d, store head is %d", i, last, head)
			}
			e.rec.Count("probe:stream_completeness_checked", 1)
		}
		if len(got) > 0 {
			e.rec.Count("probe:stream_items", len(got))
		}
	}
	overlap := false
	for _, s := range e.streams {
		if s.plan.From > 0 && int(s.plan.From) <= sc.Preload && len(puts) > 0 {
			overlap = true
		}
	}
	res.NonTrivial = overlap && len(puts) > 0
	res.Summary = fmt.Sprintf("head=%d puts=%d streams=%d stalled(scan=%d live=%d)", head, len(puts), len(e.streams), stalledScan, stalledLive)
}

func tailOf(x []uint64, k int) []uint64 {
	lo := k - 3
	if lo < 0 {
		lo = 0
	}
	hi := k + 3
	if hi > len(x) {
		hi = len(x)
	}
	return x[lo:hi]
}

// GenStream draws a stream scenario.
func GenStream(prop string, seed uint64, tier string) *StreamScenario {
	r := NewRng(seed ^ 0x57e4)
	sc := &StreamScenario{Engine: "stream", Prop: prop, Seed: seed}
	if prop == "C12" && r.Bool(25) {
		sc.Cache = genCache(r)
		return sc
	}
	sc.Backend = r.Pick("bolt-trimmed", "bolt-trimmed", "bolt", "memdb", "memdb")
	sc.Chained = r.Bool(50)
	sc.MemSize = r.Range(10, 30)
	switch x := r.Intn(10); {
	case x < 5:
		sc.Preload = r.Range(3, 40)
	case x < 8:
		sc.Preload = r.Range(40, 300)
	default:
		sc.Preload = r.Range(1500, 2500)
	}
	if sc.Backend == "memdb" && sc.Preload > 300 {
		sc.Preload = r.Range(20, 80)
	}
	if r.Bool(60) {
		sc.Yield = YieldPlan{Seed: r.U64(), PerMill: []int{20, 100, 300}[r.Intn(3)], MaxNs: []int{500, 20_000}[r.Intn(2)]}
	}
	ns := r.Range(1, 4)
	stalls := prop == "C12" || r.Bool(25)
	for i := 0; i < ns; i++ {
		p := StreamPlan{HoldAt: -1, CancelAfter: -1, Addr: fmt.Sprintf("10.0.0.%d:1", i)}
		lowest := 1
		if sc.Backend == "memdb" && sc.Preload > sc.MemSize {
			lowest = sc.Preload - sc.MemSize + 2
		}
		switch r.Intn(6) {
		case 0:
			p.From = 0
		case 1:
			p.From = uint64(sc.Preload)
		case 2:
			p.From = uint64(sc.Preload + 1)
		case 3:
			p.From = uint64(lowest)
		default:
			p.From = uint64(r.Range(lowest, sc.Preload))
		}
		p.StartUs = int64(r.Intn(3000))
		p.SendUs = int64([]int{0, 1, 20, 200, 1500}[r.Intn(5)])
		if r.Bool(40) {
			p.HoldAt = r.Intn(8)
			p.HoldUs = int64(r.Range(100, 20000))
		}
		if stalls && r.Bool(50) {
			p.HoldAt = r.Intn(12)
			p.HoldUs = -1
		}
		if r.Bool(15) {
			p.CancelAfter = r.Range(1, 10)
		}
		if i > 0 && r.Bool(20) {
			p.Addr = sc.Streams[r.Intn(i)].Addr // reconnect from the same address
		}
		sc.Streams = append(sc.Streams, p)
	}
	np := r.Range(1, 4)
	t := int64(r.Intn(2000))
	for i := 0; i < np; i++ {
		pp := PutPlan{AtUs: t, Count: r.Range(1, 6), GapUs: int64([]int{0, 1, 50, 700, 5000}[r.Intn(5)]), Race: r.Bool(20)}
		if prop == "C12" && r.Bool(40) {
			pp.Count = r.Range(100, 260) // more than the callback queue holds
			pp.GapUs = int64(r.Intn(3))
		}
		sc.Puts = append(sc.Puts, pp)
		t += int64(r.Intn(6000))
	}
	return sc
}

func ShrinkStream(sc *StreamScenario) []*StreamScenario {
	var out []*StreamScenario
	if sc.Cache != nil {
		n := len(sc.Cache.Ops)
		cut := func(i, j int) {
			c := *sc
			cc := *sc.Cache
			cc.Ops = append(append([]CacheOp(nil), sc.Cache.Ops[:i]...), sc.Cache.Ops[j:]...)
			c.Cache = &cc
			out = append(out, &c)
		}
		if n > 8 {
			cut(n/2, n)
			cut(0, n/2)
			cut(n/4, n/2)
			cut(n/2, 3*n/4)
		}
		if n <= 40 {
			for i := 0; i < n; i++ {
				cut(i, i+1)
			}
		}
		return out
	}
	cp := func() *StreamScenario {
		c := *sc
		c.Puts = append([]PutPlan(nil), sc.Puts...)
		c.Streams = append([]StreamPlan(nil), sc.Streams...)
		return &c
	}
	for i := range sc.Streams {
		if len(sc.Streams) > 1 {
			c := cp()
			c.Streams = append(c.Streams[:i:i], c.Streams[i+1:]...)
			out = append(out, c)
		}
	}
	for i := range sc.Puts {
		if len(sc.Puts) > 1 {
			c := cp()
			c.Puts = append(c.Puts[:i:i], c.Puts[i+1:]...)
			out = append(out, c)
		}
		if sc.Puts[i].Count > 1 {
			c := cp()
			c.Puts[i].Count = sc.Puts[i].Count / 2
			out = append(out, c)
		}
		if sc.Puts[i].Race {
			c := cp()
			c.Puts[i].Race = false
			out = append(out, c)
		}
	}
	if sc.Yield.PerMill > 0 {
		c := cp()
		c.Yield = YieldPlan{}
		out = append(out, c)
	}
	if sc.Preload > 6 {
		c := cp()
		d := uint64(sc.Preload - sc.Preload/2)
		c.Preload = sc.Preload / 2
		for i := range c.Streams {
			if c.Streams[i].From > d {
				c.Streams[i].From -= d
			} else if c.Streams[i].From > 0 {
				c.Streams[i].From = 1
			}
		}
		out = append(out, c)
	}
	for i := range sc.Streams {
		if sc.Streams[i].HoldAt >= 0 && sc.Streams[i].HoldUs >= 0 {
			c := cp()
			c.Streams[i].HoldAt = -1
			out = append(out, c)
		}
		if sc.Streams[i].SendUs > 0 {
			c := cp()
			c.Streams[i].SendUs = 0
			out = append(out, c)
		}
	}
	return out
}

// ---------------------------------------------------------------- C12b: partial cache under floods

type CacheOp struct {
	K string `json:"k"` // app | flush
	M int    `json:"m,omitempty"` // member index
	R uint64 `json:"r,omitempty"` // round
	P int    `json:"p,omitempty"` // previous-signature variant (0: the honest one)
}

type CacheScenario struct {
	Members int       `json:"members"`
	Flooder int       `json:"flooder"`
	Ops     []CacheOp `json:"ops"`
}

func cachePartial(m int, r uint64, p int) *drand.PartialBeaconPacket {
	sig := make([]byte, 98)
	sig[0], sig[1] = byte(m>>8), byte(m)
	for i := 2; i < len(sig); i++ {
		sig[i] = byte(H64(uint64(m), "cp", r, p, i))
	}
	prev := make([]byte, 32)
	for i := range prev {
		prev[i] = byte(H64(uint64(p), "prev", i))
	}
	return &drand.PartialBeaconPacket{Round: r, PreviousSignature: prev, PartialSig: sig}
}

// runCache drives the aggregator's partial cache directly: one member floods it with
// partials over many (round, previous signature) pairs between the others' partials.
func (e *streamEngine) runCache(cs *CacheScenario, res *RunResult) {
	sch, _ := crypto.SchemeFromName(crypto.DefaultSchemeID)
	lg, _ := NewNodeLogger(e.rec, "cache", dlog.ErrorLevel+1, false, nil, nil)
	c := beacon.VerifNewPartialCache(lg, sch)
	type rk struct {
		r uint64
		p int
	}
	others := map[rk]map[int]bool{} // partials of members other than the flooder, per round cache
	floodSent := 0
	var sizeAt []int // flooder-attributable size after every 100 flood messages
	lastFlush := uint64(0)
	for _, op := range cs.Ops {
		switch op.K {
		case "flush":
			c.FlushRounds(op.R)
			if op.R > lastFlush {
				lastFlush = op.R
			}
			for k := range others {
				if k.r <= op.R {
					delete(others, k)
				}
			}
		case "app":
			if op.R <= lastFlush {
				continue
			}
			_ = c.Append(cachePartial(op.M, op.R, op.P))
			if op.M != cs.Flooder {
				k := rk{op.R, op.P}
				if others[k] == nil {
					others[k] = map[int]bool{}
				}
				others[k][op.M] = true
			} else {
				floodSent++
				if floodSent%100 == 0 {
					_, partials, _ := c.Sizes()
					held := 0
					for _, m := range others {
						held += len(m)
					}
					sizeAt = append(sizeAt, partials-held)
				}
			}
			// C12: a member's flood never evicts what the others sent
			for k, ms := range others {
				if got := c.RoundLen(k.r, cachePartial(0, k.r, k.p).PreviousSignature); got < len(ms) {
					e.rec.Violate("C12", "flood-evicted-other-members-partials", "cache", "after %d partials of member %d the cache for round %d holds %d partials, %d other members had contributed", floodSent, cs.Flooder, k.r, got, len(ms))
					return
				}
			}
		}
	}
	// bounded per member: what the flooder occupies stops growing (plateau, measured)
	if n := len(sizeAt); n >= 4 && sizeAt[n-1] > sizeAt[n/2-1] {
		e.rec.Violate("C12", "partial-cache-grows-with-flood", "cache", "partials held for the flooding member: %v (per 100 flood messages)", sizeAt)
	}
	e.rec.Count("probe:cache_flood_partials", floodSent)
	e.rec.Count("probe:cache_runs", 1)
	res.NonTrivial = floodSent >= 100
}

func genCache(r *Rng) *CacheScenario {
	cs := &CacheScenario{Members: r.Range(3, 6)}
	cs.Flooder = r.Intn(cs.Members)
	base := uint64(r.Range(1, 50))
	nflood := r.Range(100, 700)
	// honest partials for the round being aggregated (and the next), interleaved with the flood
	type ev struct {
		at int
		op CacheOp
	}
	var evs []ev
	for m := 0; m < cs.Members; m++ {
		if m == cs.Flooder && r.Bool(50) {
			evs = append(evs, ev{r.Intn(20), CacheOp{K: "app", M: m, R: base, P: 0}})
			continue
		}
		if m != cs.Flooder {
			evs = append(evs, ev{r.Intn(nflood), CacheOp{K: "app", M: m, R: base + uint64(r.Intn(2)), P: 0}})
		}
	}
	for i := 0; i < nflood; i++ {
		evs = append(evs, ev{i, CacheOp{K: "app", M: cs.Flooder, R: base + uint64(r.Intn(4)), P: 1 + i}})
	}
	if r.Bool(30) {
		evs = append(evs, ev{r.Intn(nflood), CacheOp{K: "flush", R: base - 1 + uint64(r.Intn(2))}})
	}
	sort.SliceStable(evs, func(i, j int) bool { return evs[i].at < evs[j].at })
	for _, x := range evs {
		cs.Ops = append(cs.Ops, x.op)
	}
	return cs
}
