package zverif

import (
	"context"
	"errors"
	"fmt"
	gonet "net"
	"strings"
	"sync"
	"time"

	"google.golang.org/grpc"
	"google.golang.org/grpc/codes"
	"google.golang.org/grpc/peer"
	"google.golang.org/grpc/status"
	"google.golang.org/protobuf/proto"

	dnet "github.com/drand/drand/v2/internal/net"
	pdkg "github.com/drand/drand/v2/protobuf/dkg"
	"github.com/drand/drand/v2/protobuf/drand"
)

// gRPC method names (the simulator addresses handlers by them).
const (
	MPartial     = "/drand.Protocol/PartialBeacon"
	MSyncChain   = "/drand.Protocol/SyncChain"
	MIdentity    = "/drand.Protocol/GetIdentity"
	MStatus      = "/drand.Protocol/Status"
	MPublicRand  = "/drand.Public/PublicRand"
	MRandStream  = "/drand.Public/PublicRandStream"
	MChainInfo   = "/drand.Public/ChainInfo"
	MListBeacons = "/drand.Public/ListBeaconIDs"
	MDKGPacket   = "/dkg.DKGPublic/Packet"
	MDKGBcast    = "/dkg.DKGPublic/BroadcastDKG"
	MMetrics     = "/drand.Metrics/Metrics"
	MHealth      = "/grpc.health.v1.Health/Check"
)

// Endpoint is a simulated server: it receives the request bytes and answers.
type Endpoint interface {
	Unary(ctx context.Context, method string, req []byte) (proto.Message, error)
	Stream(ctx context.Context, method string, req []byte, send func(proto.Message) error) error
}

// NetPlan is the scenario's description of the network.
type NetPlan struct {
	BaseUs   int `json:"base_us"`   // one-way latency floor, microseconds
	JitterUs int `json:"jitter_us"` // uniform extra
	DropPct  int `json:"drop_pct"`  // per message, only while faults are on
	DupPct   int `json:"dup_pct"`
	SlowPct  int `json:"slow_pct"` // per message: delayed by up to SlowMs
	SlowMs   int `json:"slow_ms"`
	Window   int `json:"window"` // stream in-flight window (messages)
}

type simAddr string

func (a simAddr) Network() string { return "sim" }
func (a simAddr) String() string  { return string(a) }

var _ gonet.Addr = simAddr("")

type World struct {
	Seed uint64
	Rec  *Recorder
	Plan NetPlan

	mu       sync.Mutex
	eps      map[string]Endpoint
	cut      map[[2]string]bool // directed: from,to
	slow     map[string]time.Duration
	stalled  map[string]time.Time // deliveries to a stalled node are held until then
	faultsOn bool
	// stream faults decided by the scenario: key = from|to|method
	OnWire func(from, to, method, dir string, b []byte) // observation hook (C15/C20)
	OnAnswer func(from, to, method string, ok bool)      // the caller received the answer of a unary call
	// stream behaviour hooks
	StreamStallAfter func(from, to, method string) (k int, d time.Duration) // k<0: none
	refuseSync       bool
	BodyBlind        bool
}

func NewWorld(seed uint64, rec *Recorder, plan NetPlan) *World {
	if plan.Window <= 0 {
		plan.Window = 64
	}
	return &World{Seed: seed, Rec: rec, Plan: plan, eps: map[string]Endpoint{}, cut: map[[2]string]bool{}, slow: map[string]time.Duration{}, stalled: map[string]time.Time{}}
}

func (w *World) Register(addr string, ep Endpoint) {
	w.mu.Lock()
	w.eps[addr] = ep
	w.mu.Unlock()
}
func (w *World) Unregister(addr string) {
	w.mu.Lock()
	delete(w.eps, addr)
	w.mu.Unlock()
}
func (w *World) UnregisterIf(addr string, ep Endpoint) {
	w.mu.Lock()
	if w.eps[addr] == ep {
		delete(w.eps, addr)
	}
	w.mu.Unlock()
}
func (w *World) endpoint(addr string) Endpoint {
	w.mu.Lock()
	defer w.mu.Unlock()
	return w.eps[addr]
}
func (w *World) SetFaults(on bool) {
	w.mu.Lock()
	w.faultsOn = on
	w.mu.Unlock()
}
func (w *World) SetRefuseSync(on bool) {
	w.mu.Lock()
	w.refuseSync = on
	w.mu.Unlock()
}

// Partition cuts every link between the two sides (both directions).
func (w *World) Partition(a, b []string) {
	w.mu.Lock()
	for _, x := range a {
		for _, y := range b {
			w.cut[[2]string{x, y}] = true
			w.cut[[2]string{y, x}] = true
		}
	}
	w.mu.Unlock()
	w.Rec.Count("fault:partition", 1)
}

// CutOneWay drops traffic from a to b only.
func (w *World) CutOneWay(a, b string) {
	w.mu.Lock()
	w.cut[[2]string{a, b}] = true
	w.mu.Unlock()
	w.Rec.Count("fault:cut_oneway", 1)
}
func (w *World) Heal() {
	w.mu.Lock()
	w.cut = map[[2]string]bool{}
	w.slow = map[string]time.Duration{}
	w.mu.Unlock()
}
func (w *World) SetSlow(addr string, d time.Duration) {
	w.mu.Lock()
	w.slow[addr] = d
	w.mu.Unlock()
	w.Rec.Count("fault:slow_node", 1)
}
func (w *World) StallNode(addr string, d time.Duration) {
	w.mu.Lock()
	w.stalled[addr] = time.Now().Add(d)
	w.mu.Unlock()
}

// evHash is the content tag written to the event log (0 for traffic whose bytes are random).
func evHash(method string, body []byte) uint64 {
	if bodyBlind || method == MDKGBcast || method == MDKGPacket {
		return 0
	}
	return H64(0, body) & 0xffffff
}

// bodyBlind: in engines whose key material is generated with real randomness (E-daemon:
// the DKG secret, hence every signature) no decision and no log line may depend on bytes.
var bodyBlind bool

type fate struct {
	drop  bool
	dup   bool
	delay time.Duration
}

// fateOf decides what happens to one message; pure in (seed, identity, now).
func (w *World) fateOf(from, to, method, dir string, body []byte) fate {
	now := time.Now()
	if w.BodyBlind || method == MDKGBcast || method == MDKGPacket {
		// key-generation traffic carries fresh randomness (nonces, ephemeral keys): its bytes
		// must not decide its fate, or one seed would no longer be one execution
		body = nil
	}
	v := H64(w.Seed, "fate", from, to, method, dir, body, now.UnixNano())
	w.mu.Lock()
	defer w.mu.Unlock()
	var f fate
	if strings.HasPrefix(from, "zombie-") {
		f.drop = true
		return f
	}
	if w.cut[[2]string{from, to}] {
		f.drop = true
		w.Rec.Count("fault:partition_drop", 1)
		return f
	}
	us := uint64(w.Plan.BaseUs)
	if w.Plan.JitterUs > 0 {
		us += (v >> 8) % uint64(w.Plan.JitterUs)
	}
	f.delay = time.Duration(us)*time.Microsecond + time.Duration(1+(v>>40)%997)
	f.delay += w.slow[from] + w.slow[to]
	if w.faultsOn {
		if int(v%100) < w.Plan.DropPct {
			f.drop = true
			w.Rec.Count("fault:drop_"+dir, 1)
			return f
		}
		if int((v>>16)%100) < w.Plan.DupPct && dir == "req" {
			f.dup = true
			w.Rec.Count("fault:dup", 1)
		}
		if w.Plan.SlowMs > 0 && int((v>>24)%100) < w.Plan.SlowPct {
			f.delay += time.Duration((v>>32)%uint64(w.Plan.SlowMs)+1) * time.Millisecond
			w.Rec.Count("fault:delay", 1)
		}
	}
	if until, ok := w.stalled[to]; ok {
		if rem := until.Sub(now); rem > f.delay {
			f.delay = rem + time.Duration(1+(v>>40)%997)
			w.Rec.Count("fault:held_for_stalled_node", 1)
		}
	}
	return f
}

func serverCtx(from string) (context.Context, context.CancelFunc) {
	ctx := peer.NewContext(context.Background(), &peer.Peer{Addr: simAddr(from)})
	return context.WithCancel(ctx)
}

var errRefused = status.Error(codes.Unavailable, "sim: connection refused")

type callResult struct {
	body []byte
	err  error
}

// Call performs one unary RPC from -> to. timeout is the caller-side deadline
// of the real client (0: none beyond ctx).
func (w *World) Call(ctx context.Context, from, to, method string, req proto.Message, resp proto.Message, timeout time.Duration) error {
	body, err := proto.Marshal(req)
	if err != nil {
		return err
	}
	return w.CallRaw(ctx, from, to, method, body, resp, timeout)
}

func (w *World) CallRaw(ctx context.Context, from, to, method string, body []byte, resp proto.Message, timeout time.Duration) error {
	if timeout > 0 {
		var cancel context.CancelFunc
		ctx, cancel = context.WithTimeout(ctx, timeout)
		defer cancel()
	}
	if h := w.OnWire; h != nil {
		h(from, to, method, "req", body)
	}
	w.Rec.Ev("send", from, "%s -> %s %d bytes %x", method, to, len(body), evHash(method, body))
	w.Rec.Count("msg:sent", 1)
	f := w.fateOf(from, to, method, "req", body)
	done := make(chan callResult, 2)
	deliver := func(first bool) {
		ep := w.endpoint(to)
		if ep == nil {
			w.Rec.Ev("refused", to, "%s from %s", method, from)
			if first {
				w.respond(from, to, method, callResult{err: errRefused}, done)
			}
			return
		}
		sctx, cancel := serverCtx(from)
		stop := context.AfterFunc(ctx, cancel)
		defer stop()
		defer cancel()
		w.Rec.Ev("deliver", to, "%s from %s %x", method, from, evHash(method, body))
		w.Rec.Count("msg:delivered", 1)
		m, err := ep.Unary(sctx, method, append([]byte(nil), body...))
		var rb []byte
		if err == nil && m != nil {
			rb, err = proto.Marshal(m)
		}
		w.Rec.Ev("handled", to, "%s from %s err=%v", method, from, err != nil)
		if first {
			w.respond(from, to, method, callResult{body: rb, err: err}, done)
		}
	}
	if !f.drop {
		time.AfterFunc(f.delay, func() { deliver(true) })
		if f.dup {
			time.AfterFunc(2*f.delay+time.Duration(H64(w.Seed, "dupd", from, to, method, int64(f.delay))%1000), func() { deliver(false) })
		}
	}
	select {
	case r := <-done:
		if h := w.OnAnswer; h != nil {
			h(from, to, method, r.err == nil)
		}
		if r.err != nil {
			return r.err
		}
		if resp != nil {
			return proto.Unmarshal(r.body, resp)
		}
		return nil
	case <-ctx.Done():
		w.Rec.Count("msg:caller_timeout", 1)
		if errors.Is(ctx.Err(), context.DeadlineExceeded) {
			return status.Error(codes.DeadlineExceeded, "sim: deadline exceeded")
		}
		return status.Error(codes.Canceled, "sim: canceled")
	}
}

func (w *World) respond(from, to, method string, r callResult, done chan callResult) {
	if h := w.OnWire; h != nil && r.err == nil {
		h(to, from, method, "resp", r.body)
	}
	if r.err != nil {
		if h := w.OnWire; h != nil {
			h(to, from, method, "err", []byte(r.err.Error()))
		}
	}
	f := w.fateOf(to, from, method, "resp", r.body)
	if f.drop {
		return
	}
	time.AfterFunc(f.delay, func() { done <- r })
}

// OpenStream opens a server stream; messages arrive on the returned channel
// (capacity cap, as in the real client), which is closed when the stream ends.
func OpenStream[T proto.Message](w *World, ctx context.Context, from, to, method string, req proto.Message, capacity int, newT func() T) (chan T, error) {
	body, err := proto.Marshal(req)
	if err != nil {
		return nil, err
	}
	out := make(chan T, capacity)
	if h := w.OnWire; h != nil {
		h(from, to, method, "req", body)
	}
	w.Rec.Ev("send", from, "%s -> %s (stream) %x", method, to, H64(0, body)&0xffffff)
	w.mu.Lock()
	refuse := w.refuseSync && method == MSyncChain
	w.mu.Unlock()
	f := w.fateOf(from, to, method, "req", body)
	if refuse || f.drop {
		// the real client returns a stream that then fails on Recv
		d := f.delay
		if d == 0 {
			d = time.Millisecond
		}
		time.AfterFunc(d, func() { close(out) })
		return out, nil
	}
	stallK, stallD := -1, time.Duration(0)
	if w.StreamStallAfter != nil {
		stallK, stallD = w.StreamStallAfter(from, to, method)
	}
	time.AfterFunc(f.delay, func() {
		ep := w.endpoint(to)
		if ep == nil {
			close(out)
			return
		}
		sctx, cancel := serverCtx(from)
		stop := context.AfterFunc(ctx, cancel)
		defer stop()
		type item struct {
			b  []byte
			at time.Time
		}
		q := make(chan item, w.Plan.Window)
		fwdDone := make(chan struct{})
		go func() { // forwarder: the wire + the client's receive loop
			defer close(fwdDone)
			defer close(out)
			var last time.Time
			n := 0
			for it := range q {
				ff := w.fateOf(to, from, method, "item", it.b)
				if ff.drop { // a cut link kills the stream
					cancel()
					w.Rec.Ev("stream_cut", from, "%s from %s", method, to)
					return
				}
				at := it.at.Add(ff.delay)
				if !at.After(last) {
					at = last.Add(time.Nanosecond)
				}
				last = at
				if d := time.Until(at); d > 0 {
					select {
					case <-time.After(d):
					case <-ctx.Done():
						return
					}
				}
				if stallK >= 0 && n == stallK {
					w.Rec.Count("fault:stream_stall", 1)
					w.Rec.Ev("stream_stall", from, "%s from %s after %d", method, to, n)
					if stallD <= 0 {
						<-ctx.Done()
						return
					}
					select {
					case <-time.After(stallD):
					case <-ctx.Done():
						return
					}
				}
				n++
				m := newT()
				if err := proto.Unmarshal(it.b, m); err != nil {
					return
				}
				if h := w.OnWire; h != nil {
					h(to, from, method, "item", it.b)
				}
				select {
				case out <- m:
					w.Rec.Ev("stream_item", from, "%s from %s #%d", method, to, n)
				case <-ctx.Done():
					return
				}
			}
		}()
		send := func(m proto.Message) error {
			b, err := proto.Marshal(m)
			if err != nil {
				return err
			}
			select {
			case <-sctx.Done():
				return status.Error(codes.Canceled, "sim: stream context done")
			default:
			}
			select {
			case q <- item{b, time.Now()}:
				return nil
			case <-sctx.Done():
				return status.Error(codes.Canceled, "sim: stream context done")
			case <-fwdDone:
				return status.Error(codes.Unavailable, "sim: transport is closing")
			}
		}
		w.Rec.Ev("deliver", to, "%s from %s (stream)", method, from)
		err := ep.Stream(sctx, method, append([]byte(nil), body...), send)
		w.Rec.Ev("handled", to, "%s from %s (stream) err=%v", method, from, err != nil)
		close(q)
		<-fwdDone
		cancel()
	})
	return out, nil
}

// ---------------------------------------------------------------- client

// SimClient implements drand's net.Client for one node over the World.
type SimClient struct {
	W    *World
	Self string
	// Tap, if set, sees every outgoing partial before it is sent (C04).
	TapPartial func(to string, p *drand.PartialBeaconPacket)
	stopped    bool
}

var _ dnet.Client = (*SimClient)(nil)

const unaryTimeout = 5 * time.Second // defaultConnTimeout of the real client
const healthTimeout = 3 * time.Second

func (c *SimClient) GetIdentity(ctx context.Context, p dnet.Peer, in *drand.IdentityRequest, _ ...dnet.CallOption) (*drand.IdentityResponse, error) {
	out := new(drand.IdentityResponse)
	if err := c.W.Call(ctx, c.Self, p.Address(), MIdentity, in, out, unaryTimeout); err != nil {
		return nil, err
	}
	return out, nil
}

func (c *SimClient) PartialBeacon(ctx context.Context, p dnet.Peer, in *drand.PartialBeaconPacket, _ ...dnet.CallOption) error {
	if c.TapPartial != nil {
		c.TapPartial(p.Address(), in)
	}
	return c.W.Call(ctx, c.Self, p.Address(), MPartial, in, new(drand.Empty), unaryTimeout)
}

func (c *SimClient) Status(ctx context.Context, p dnet.Peer, in *drand.StatusRequest, _ ...grpc.CallOption) (*drand.StatusResponse, error) {
	out := new(drand.StatusResponse)
	if err := c.W.Call(ctx, c.Self, p.Address(), MStatus, in, out, unaryTimeout); err != nil {
		return nil, err
	}
	return out, nil
}

func (c *SimClient) Check(ctx context.Context, p dnet.Peer) error {
	// health check: answered by the transport when the node is up
	return c.W.Call(ctx, c.Self, p.Address(), MHealth, new(drand.Empty), nil, healthTimeout)
}

func (c *SimClient) SyncChain(ctx context.Context, p dnet.Peer, in *drand.SyncRequest, _ ...dnet.CallOption) (chan *drand.BeaconPacket, error) {
	return OpenStream(c.W, ctx, c.Self, p.Address(), MSyncChain, in, dnet.MaxSyncBuffer, func() *drand.BeaconPacket { return new(drand.BeaconPacket) })
}

func (c *SimClient) PublicRandStream(ctx context.Context, p dnet.Peer, in *drand.PublicRandRequest, _ ...dnet.CallOption) (chan *drand.PublicRandResponse, error) {
	return OpenStream(c.W, ctx, c.Self, p.Address(), MRandStream, in, 10, func() *drand.PublicRandResponse { return new(drand.PublicRandResponse) })
}

func (c *SimClient) PublicRand(ctx context.Context, p dnet.Peer, in *drand.PublicRandRequest) (*drand.PublicRandResponse, error) {
	out := new(drand.PublicRandResponse)
	if err := c.W.Call(ctx, c.Self, p.Address(), MPublicRand, in, out, unaryTimeout); err != nil {
		return nil, err
	}
	return out, nil
}

func (c *SimClient) ChainInfo(ctx context.Context, p dnet.Peer, in *drand.ChainInfoRequest) (*drand.ChainInfoPacket, error) {
	out := new(drand.ChainInfoPacket)
	if err := c.W.Call(ctx, c.Self, p.Address(), MChainInfo, in, out, unaryTimeout); err != nil {
		return nil, err
	}
	return out, nil
}

func (c *SimClient) ListBeaconIDs(ctx context.Context, p dnet.Peer) (*drand.ListBeaconIDsResponse, error) {
	out := new(drand.ListBeaconIDsResponse)
	if err := c.W.Call(ctx, c.Self, p.Address(), MListBeacons, new(drand.ListBeaconIDsRequest), out, 0); err != nil {
		return nil, err
	}
	return out, nil
}

func (c *SimClient) GetMetrics(ctx context.Context, addr string) (string, error) {
	out := new(drand.MetricsResponse)
	if err := c.W.Call(ctx, c.Self, addr, MMetrics, new(drand.MetricsRequest), out, unaryTimeout); err != nil {
		return "", err
	}
	return string(out.GetMetrics()), nil
}

func (c *SimClient) Packet(ctx context.Context, p dnet.Peer, in *pdkg.GossipPacket, _ ...grpc.CallOption) (*pdkg.EmptyDKGResponse, error) {
	out := new(pdkg.EmptyDKGResponse)
	if err := c.W.Call(ctx, c.Self, p.Address(), MDKGPacket, in, out, unaryTimeout); err != nil {
		return nil, err
	}
	return out, nil
}

func (c *SimClient) BroadcastDKG(ctx context.Context, p dnet.Peer, in *pdkg.DKGPacket, _ ...grpc.CallOption) (*pdkg.EmptyDKGResponse, error) {
	out := new(pdkg.EmptyDKGResponse)
	if err := c.W.Call(ctx, c.Self, p.Address(), MDKGBcast, in, out, unaryTimeout); err != nil {
		return nil, err
	}
	return out, nil
}

func (c *SimClient) Stop() {}

func unimplemented(method string) error {
	return status.Error(codes.Unimplemented, fmt.Sprintf("sim: %s not served here", method))
}
