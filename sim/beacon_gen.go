package zverif

import "sort"

// GenBeacon draws one E-beacon scenario (swarm style: each run enables a
// random subset of fault kinds and adversary behaviours) biased towards prop.
func GenBeacon(prop string, seed uint64, tier string) *BeaconScenario {
	r := NewRng(seed ^ 0xbeac0)
	sc := &BeaconScenario{Engine: "beacon", Prop: prop, Seed: seed}
	// sizes
	switch x := r.Intn(20); {
	case x == 0:
		sc.N = 1
	case x == 1:
		sc.N = 2
	case x == 2:
		sc.N = 7
	default:
		sc.N = r.Range(3, 6)
	}
	sc.T = r.Range(sc.N/2+1, sc.N)
	sc.Scheme = SchemeNames[r.Intn(len(SchemeNames))]
	if r.Bool(35) {
		sc.Scheme = SchemeNames[0] // the chained scheme has the most state
	}
	sc.PeriodS = []int{1, 2, 2, 3, 3, 5}[r.Intn(6)]
	sc.Backend = r.Pick("bolt-trimmed", "bolt-trimmed", "bolt", "memdb")
	sc.MemSize = r.Range(10, 40)
	if r.Bool(25) {
		for i := 0; i < sc.N; i++ {
			sc.Backends = append(sc.Backends, r.Pick("bolt-trimmed", "bolt", "memdb"))
		}
	}
	if sc.N >= 3 && r.Bool(15) {
		sc.Hole = r.Range(1, sc.N)
	}
	sc.GenesisInS = r.Range(2, 4)
	// network
	sc.Net = NetPlan{BaseUs: []int{200, 1000, 5000, 20000}[r.Intn(4)], JitterUs: []int{100, 2000, 20000, 60000}[r.Intn(4)]}
	lmaxMs := (sc.Net.BaseUs + sc.Net.JitterUs) / 1000
	maxCatch := sc.PeriodS*500 - 3*lmaxMs - 10
	if maxCatch < 100 {
		maxCatch = 100
		sc.Net.BaseUs, sc.Net.JitterUs = 200, 2000
		lmaxMs = 3
	}
	sc.CatchupMs = r.Range(80, maxCatch)
	if r.Bool(60) {
		sc.Net.DropPct = r.Range(1, 30)
	}
	if r.Bool(40) {
		sc.Net.DupPct = r.Range(1, 15)
	}
	if r.Bool(40) {
		sc.Net.SlowPct = r.Range(1, 30)
		sc.Net.SlowMs = r.Range(10, sc.PeriodS*1500)
	}
	// roles
	sc.Roles = make([]string, sc.N)
	for i := range sc.Roles {
		sc.Roles[i] = "honest"
	}
	maxBad := sc.N - sc.T
	bad := 0
	if maxBad > 0 && r.Bool(70) {
		bad = r.Range(1, maxBad)
	}
	perm := r.Perm(sc.N)
	var byz []int
	for i := 0; i < bad; i++ {
		if r.Bool(75) || prop == "C01" || prop == "C03" || prop == "C10" || prop == "C14" {
			sc.Roles[perm[i]] = "byz"
			byz = append(byz, perm[i])
		} else {
			sc.Roles[perm[i]] = "silent"
		}
	}
	var honest []int
	for i, ro := range sc.Roles {
		if ro == "honest" {
			honest = append(honest, i)
		}
	}
	// clocks
	sc.SkewMs = make([]int, sc.N)
	for i := range sc.SkewMs {
		switch x := r.Intn(10); {
		case x < 5:
			sc.SkewMs[i] = 0
		case x < 8:
			sc.SkewMs[i] = r.Range(-200, 0)
		default:
			if prop == "C04" || r.Bool(30) {
				sc.SkewMs[i] = r.Range(1, sc.PeriodS*1500)
			}
		}
	}
	// yields
	if r.Bool(70) {
		sc.Yield = YieldPlan{Seed: r.U64(), PerMill: []int{5, 20, 60, 150}[r.Intn(4)], MaxNs: []int{1000, 50_000, 2_000_000}[r.Intn(3)]}
	}
	faultRounds := r.Range(4, 10)
	if tier == "thorough" {
		faultRounds = r.Range(4, 24)
	}
	periodMs := int64(sc.PeriodS) * 1000
	g0 := int64(sc.GenesisInS) * 1000
	faultEnd := g0 + int64(faultRounds)*periodMs
	at := func() int64 { return g0 + int64(r.Intn(int(faultEnd-g0))) }
	add := func(a Act) { sc.Script = append(sc.Script, a) }
	// which fault kinds this run uses
	use := map[string]bool{}
	for _, k := range []string{"partition", "stop", "jump", "stall", "slow", "cut", "loss", "byz", "observe", "store_err", "slow_store", "reshare"} {
		use[k] = r.Bool(45)
	}
	switch prop {
	case "C01":
		use["byz"], use["observe"] = true, true
		sc.SyncLies = r.Pick("bad_sig", "wrong_round", "relabel", "foreign_id", "out_of_order", "garbage", "future_unsigned", "stall", "close_early")
		use["stop"] = true
	case "C02":
		use["stop"], use["partition"] = true, true
		if sc.Yield.PerMill < 20 {
			sc.Yield = YieldPlan{Seed: r.U64(), PerMill: 60, MaxNs: 50_000}
		}
	case "C04":
		use["jump"], use["stall"], use["byz"] = true, true, true
	case "C14":
		// hostile members at the beacon layer: what they send must not kill the process (a panic in the
		// aggregator or a store worker goroutine is not caught by anything)
		use["byz"], use["observe"] = true, true
	case "C05":
		use["partition"], use["stop"], use["loss"] = true, true, true
	case "C10":
		use["stop"] = true
		sc.SyncLies = r.Pick("bad_sig", "wrong_round", "relabel", "foreign_id", "out_of_order", "garbage", "future_unsigned", "stall", "close_early")
		if r.Bool(40) {
			sc.StallSync = r.Range(1, 4)
		}
	}
	if sc.SyncLies == "" && len(byz) > 0 {
		sc.SyncLies = r.Pick("bad_sig", "wrong_round", "relabel", "foreign_id", "out_of_order", "garbage", "future_unsigned", "stall", "close_early")
	}
	if prop == "C03" {
		// threshold counting: no sync, k contributors around the threshold
		sc.NoSync = true
		sc.Net.DropPct, sc.Net.DupPct = 0, r.Range(0, 10)
		sc.Script = nil
		k := sc.T + r.Range(-1, 1)
		if k > sc.N {
			k = sc.N
		}
		if k < 0 {
			k = 0
		}
		// k honest contributors, the rest byzantine (invalid partials only) or silent
		order := r.Perm(sc.N)
		for j, i := range order {
			if j < k {
				sc.Roles[i] = "honest"
			} else if r.Bool(70) {
				sc.Roles[i] = "byz"
			} else {
				sc.Roles[i] = "silent"
			}
		}
		sc.ExpectNone = k < sc.T
		if sc.N >= 3 && sc.T >= 2 && sc.T <= sc.N-0 && r.Bool(20) {
			// a member that signs along in the first epoch is left out of the reshared group (its index becomes a
			// hole) but keeps sending partials made with the share it was dealt: with t-1 real members besides
			// it, nothing may be stored from the transition on
			order := r.Perm(sc.N)
			for j, i := range order {
				switch {
				case j < sc.T-1:
					sc.Roles[i] = "honest"
				case j == sc.T-1:
					sc.Roles[i] = "byz"
				default:
					sc.Roles[i] = "silent"
				}
			}
			dropped := order[sc.T-1]
			sc.ExpectNone = false
			faultRounds = r.Range(6, 9)
			faultEnd = g0 + int64(faultRounds)*periodMs
			sc.Reshare = &Reshare{AtRound: uint64(r.Range(3, 4)), NewT: sc.T, Drop: dropped + 1}
			sc.Reshare.AnnounceMs = g0 + int64(sc.Reshare.AtRound-2)*periodMs - int64(r.Intn(int(periodMs)))
			add(Act{AtMs: sc.Reshare.AnnounceMs, Kind: "reshare"})
			for t := g0 - periodMs/2; t < faultEnd; t += periodMs / 3 {
				add(Act{AtMs: t + int64(r.Intn(int(periodMs/3))), Kind: "byz", Node: dropped, S: "valid", A: int64(r.Range(0, 1))})
			}
			sc.HealAtMs = faultEnd
			sc.Rounds = faultRounds + 4
			return sc
		}
		faultRounds = r.Range(4, 8)
		faultEnd = g0 + int64(faultRounds)*periodMs
		// below the threshold the byzantine members must not contribute anything valid
		kinds := []string{"wrong_round", "random_scalar", "other_index", "victim_index", "nonmember_index", "truncated", "bitflip"}
		if sc.Scheme == SchemeNames[0] {
			kinds = append(kinds, "wrong_prev")
		}
		if !sc.ExpectNone {
			kinds = append(kinds, "dup", "valid", "replay_old", "future", "flood", "wrong_prev")
		}
		kinds = append(kinds, "evicted_member", "old_epoch", "old_epoch")
		if k >= sc.T && r.Bool(50) {
			// the group switches to another threshold in the middle of the run
			lo := sc.N/2 + 1
			if nt := r.Range(lo, k); nt != sc.T || r.Bool(30) {
				sc.Reshare = &Reshare{AtRound: uint64(r.Range(3, 5)), NewT: nt}
				sc.Reshare.AnnounceMs = g0 + int64(sc.Reshare.AtRound-2)*periodMs - int64(r.Intn(int(periodMs)))
				add(Act{AtMs: sc.Reshare.AnnounceMs, Kind: "reshare"})
			}
		}
		for i, ro := range sc.Roles {
			if ro != "byz" {
				continue
			}
			for t := g0; t < faultEnd; t += periodMs / 2 {
				add(Act{AtMs: t + int64(r.Intn(int(periodMs/2))), Kind: "byz", Node: i, S: kinds[r.Intn(len(kinds))], A: int64(r.Range(0, 1)), B: int64(r.Range(5, 40))})
			}
		}
		sc.HealAtMs = faultEnd
		sc.Rounds = faultRounds + 6
		return sc
	}
	if use["loss"] {
		add(Act{AtMs: g0 + int64(r.Intn(int(periodMs))), Kind: "faults_on"})
		if r.Bool(50) {
			add(Act{AtMs: at(), Kind: "faults_off"})
		}
	} else {
		sc.Net.DropPct, sc.Net.DupPct, sc.Net.SlowPct = 0, 0, 0
	}
	if use["partition"] && sc.N >= 2 {
		for k := r.Range(1, 2); k > 0; k-- {
			sz := r.Range(1, sc.N-1)
			p := r.Perm(sc.N)[:sz]
			sort.Ints(p)
			t0 := at()
			add(Act{AtMs: t0, Kind: "partition", Nodes: p})
			if r.Bool(60) {
				add(Act{AtMs: t0 + int64(r.Range(1, 4))*periodMs, Kind: "heal"})
			}
		}
	}
	if use["cut"] && sc.N >= 2 {
		add(Act{AtMs: at(), Kind: "cut", Node: r.Intn(sc.N), A: int64(r.Intn(sc.N))})
	}
	if use["stop"] && len(honest) > 0 {
		for k := r.Range(1, 2); k > 0; k-- {
			n := honest[r.Intn(len(honest))]
			t0 := at()
			add(Act{AtMs: t0, Kind: "stop", Node: n})
			add(Act{AtMs: t0 + int64(r.Range(1, 5))*periodMs + int64(r.Intn(int(periodMs))), Kind: "start", Node: n})
		}
	}
	if use["jump"] && len(honest) > 0 {
		// fewer than t members get a fast clock
		cnt := r.Range(1, 2)
		for k := 0; k < cnt; k++ {
			add(Act{AtMs: at(), Kind: "jump", Node: honest[r.Intn(len(honest))], A: int64(r.Range(100, sc.PeriodS*2500))})
		}
	}
	if use["stall"] && len(honest) > 0 {
		add(Act{AtMs: at(), Kind: "stall", Node: honest[r.Intn(len(honest))], A: int64(r.Range(sc.PeriodS*500, sc.PeriodS*3500))})
	}
	if use["store_err"] && len(honest) > 0 {
		add(Act{AtMs: at(), Kind: "store_err", Node: honest[r.Intn(len(honest))], A: int64(r.Range(1, 2))})
	}
	if use["slow_store"] && len(honest) > 0 {
		add(Act{AtMs: at(), Kind: "slow_store", Node: honest[r.Intn(len(honest))], A: int64(r.Range(sc.PeriodS*100, sc.PeriodS*1300)), B: int64(r.Range(1, 3)) * periodMs})
	}
	if use["reshare"] && faultRounds >= 5 {
		lo := sc.N/2 + 1
		hi := len(honest)
		if hi >= lo {
			sc.Reshare = &Reshare{AtRound: uint64(r.Range(4, faultRounds)), NewT: r.Range(lo, hi)}
			// the new group is announced while the transition is still ahead on every member's own clock (a real
			// ceremony sets it rounds ahead): clocks that the script steps forward get that much more notice
			ahead := int64(0)
			for _, h := range honest {
				a := int64(0)
				if h < len(sc.SkewMs) && sc.SkewMs[h] > 0 {
					a = int64(sc.SkewMs[h])
				}
				for _, act := range sc.Script {
					if act.Kind == "jump" && act.Node == h {
						a += act.A
					}
				}
				if a > ahead {
					ahead = a
				}
			}
			sc.Reshare.AnnounceMs = g0 + int64(sc.Reshare.AtRound-1)*periodMs - ahead - int64(r.Range(int(periodMs), int(2*periodMs)))
			if sc.Reshare.AnnounceMs < 300 {
				sc.Reshare.AnnounceMs = 300
			}
			add(Act{AtMs: sc.Reshare.AnnounceMs, Kind: "reshare"})
		}
	}
	if use["slow"] {
		add(Act{AtMs: at(), Kind: "slow", Node: r.Intn(sc.N), A: int64(r.Range(50, sc.PeriodS*1200))})
	}
	if use["byz"] && len(byz) > 0 {
		kinds := []string{"valid", "dup", "wrong_round", "wrong_prev", "random_scalar", "other_index", "victim_index", "nonmember_index", "truncated", "bitflip", "replay_old", "future", "flood", "evicted_member", "old_epoch"}
		for k := r.Range(3, 12); k > 0; k-- {
			add(Act{AtMs: at(), Kind: "byz", Node: byz[r.Intn(len(byz))], S: kinds[r.Intn(len(kinds))], A: int64(r.Range(-1, 2)), B: int64(r.Range(5, 60))})
		}
		if prop == "C14" {
			// bursts well beyond what one member may have pending (the cache evicts from 100 on), all between two beacons
			for k := r.Range(1, 3); k > 0; k-- {
				add(Act{AtMs: at(), Kind: "byz", Node: byz[r.Intn(len(byz))], S: "flood", A: int64(r.Range(-1, 1)), B: int64(r.Range(205, 330))})
			}
		}
	}
	if use["observe"] && len(honest) > 0 {
		for k := r.Range(1, 3); k > 0; k-- {
			add(Act{AtMs: at(), Kind: "observe", Node: honest[r.Intn(len(honest))], A: int64(r.Range(0, faultRounds)), B: int64(r.Range(2, 8))})
		}
	}
	if sc.Reshare != nil {
		// restarts around a transition are the daemon's business (which group a restarted
		// process loads is decided by core, exercised in E-daemon): no stop/start here
		kept := sc.Script[:0]
		for _, a := range sc.Script {
			if a.Kind != "stop" && a.Kind != "start" {
				kept = append(kept, a)
			}
		}
		sc.Script = kept
	}
	// every stopped node is started again before heal; heal ends every fault
	sc.HealAtMs = faultEnd
	for _, a := range sc.Script {
		if a.AtMs+periodMs > sc.HealAtMs {
			sc.HealAtMs = a.AtMs + periodMs
		}
	}
	gmax := (sc.HealAtMs-g0)/periodMs + 1
	cMs := int64(sc.CatchupMs) + 3*int64(lmaxMs) + 1
	boundMs := 4*periodMs + 3*(gmax+4)*cMs
	sc.Rounds = int((sc.HealAtMs-g0+boundMs)/periodMs) + 3
	sort.SliceStable(sc.Script, func(i, j int) bool { return sc.Script[i].AtMs < sc.Script[j].AtMs })
	return sc
}

// ShrinkBeacon lists smaller variants of sc, simplest first.
func ShrinkBeacon(sc *BeaconScenario) []*BeaconScenario {
	var out []*BeaconScenario
	cp := func() *BeaconScenario {
		c := *sc
		c.Script = append([]Act(nil), sc.Script...)
		c.Roles = append([]string(nil), sc.Roles...)
		c.SkewMs = append([]int(nil), sc.SkewMs...)
		return &c
	}
	if len(sc.Script) > 0 {
		c := cp()
		c.Script = nil
		out = append(out, c)
		if len(sc.Script) > 3 {
			c = cp()
			c.Script = c.Script[:len(c.Script)/2]
			out = append(out, c)
			c = cp()
			c.Script = c.Script[len(c.Script)/2:]
			out = append(out, c)
		}
		for i := range sc.Script {
			c = cp()
			c.Script = append(c.Script[:i:i], c.Script[i+1:]...)
			out = append(out, c)
		}
	}
	if sc.Yield.PerMill > 0 {
		c := cp()
		c.Yield = YieldPlan{}
		out = append(out, c)
	}
	if sc.Net.DropPct+sc.Net.DupPct+sc.Net.SlowPct > 0 {
		c := cp()
		c.Net.DropPct, c.Net.DupPct, c.Net.SlowPct = 0, 0, 0
		out = append(out, c)
	}
	nz := false
	for _, s := range sc.SkewMs {
		if s != 0 {
			nz = true
		}
	}
	if nz {
		c := cp()
		for i := range c.SkewMs {
			c.SkewMs[i] = 0
		}
		out = append(out, c)
	}
	if sc.Net.JitterUs > 100 {
		c := cp()
		c.Net.BaseUs, c.Net.JitterUs = 200, 100
		out = append(out, c)
	}
	if sc.Rounds > 8 {
		c := cp()
		c.Rounds = sc.Rounds * 2 / 3
		out = append(out, c)
	}
	if sc.StallSync > 0 {
		c := cp()
		c.StallSync = 0
		out = append(out, c)
	}
	return out
}
