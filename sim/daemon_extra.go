package zverif

func (e *daemonEngine) applyExtra(a Act, n *dNode) {}

func (e *daemonEngine) finalExtra(res *RunResult) {}
