package zverif

// Property-specific parts of E-daemon: the request fuzzer and probes (C14), the
// secret scan (C15), multi-chain routing (C19).

import (
	"bytes"
	"context"
	"encoding/base64"
	"encoding/hex"
	"fmt"
	"net/http/httptest"
	"os"
	"path/filepath"
	"strings"
	"time"

	"google.golang.org/protobuf/proto"
	"google.golang.org/protobuf/types/known/timestamppb"

	pdkg "github.com/drand/drand/v2/protobuf/dkg"
	"github.com/drand/drand/v2/protobuf/drand"
)

func (e *daemonEngine) applyExtra(a Act, n *dNode) {
	switch a.Kind {
	case "fuzz":
		if n != nil {
			go e.fuzz(n, int(a.A), a.AtMs)
		}
	case "probe":
		if n != nil {
			go e.probe(n, "scripted")
		}
	case "route":
		if n != nil {
			go e.routeCheck(n, a.AtMs)
		}
	case "stop_beacon":
		if n != nil {
			e.stopBeacon(n, a.S)
		}
	case "corrupt_db":
		if n != nil {
			p := filepath.Join(n.dir, "multibeacon", a.S, "db", "drand.db")
			n.mu.Lock()
			isStopped := n.stopped[a.S]
			n.mu.Unlock()
			if fi, err := os.Stat(p); err == nil && fi.Size() > 64 && isStopped {
				_ = os.WriteFile(p, bytes.Repeat([]byte("not a database "), 300), 0o660)
				e.rec.Count("fault:chain_db_damaged", 1)
			}
		}
	case "loosen_modes":
		if n != nil {
			_ = filepath.Walk(n.dir, func(p string, fi os.FileInfo, err error) error {
				if err == nil && !fi.IsDir() && strings.HasSuffix(p, ".private") {
					b, _ := os.ReadFile(p)
					_ = os.Chmod(p, 0o644)
					n.mu.Lock()
					if n.loosened == nil {
						n.loosened = map[string][32]byte{}
					}
					n.loosened[filepath.Base(p)] = sha256Digest(b)
					n.mu.Unlock()
					e.rec.Count("fault:secret_file_mode_loosened", 1)
				}
				return nil
			})
		}
	case "load_beacon":
		if n != nil {
			e.loadBeacon(n, a.S)
		}
	}
}

func (e *daemonEngine) finalExtra(res *RunResult) {
	if e.sc.Mode == "fuzz" {
		for i := 0; i < e.sc.N; i++ {
			if e.nodes[i].up {
				e.probe(e.nodes[i], "final")
			}
		}
	}
	if e.keepIO {
		e.scanSecrets()
	}
	if len(e.beaconIDs()) > 1 {
		for i := 0; i < e.sc.N; i++ {
			if e.nodes[i].up {
				e.routeCheck(e.nodes[i], 999_999)
			}
		}
	}
}

// ---------------------------------------------------------------- C14: fuzzer

func fzBytes(r *Rng, real []byte) []byte {
	switch r.Intn(9) {
	case 0:
		return nil
	case 1:
		return []byte{}
	case 2:
		return []byte{byte(r.Intn(256))}
	case 3:
		b := make([]byte, []int{2, 3, 31, 32, 47, 48, 49, 95, 96, 97, 98}[r.Intn(11)])
		for i := range b {
			b[i] = byte(r.Intn(256))
		}
		return b
	case 4:
		b := make([]byte, r.Range(1000, 70000))
		for i := range b {
			b[i] = byte(i)
		}
		return b
	case 5:
		if len(real) > 2 {
			return real[:len(real)/2]
		}
	case 6:
		if len(real) > 0 {
			b := append([]byte(nil), real...)
			b[r.Intn(len(b))] ^= byte(1 << r.Intn(8))
			return b
		}
	}
	return real
}

func (e *daemonEngine) fzMetadata(r *Rng) *drand.Metadata {
	switch r.Intn(8) {
	case 0:
		return nil
	case 1:
		return &drand.Metadata{}
	}
	m := &drand.Metadata{BeaconID: r.Pick("", "default", "default", "unknown", "DEFAULT", strings.Repeat("x", 300))}
	ids := e.beaconIDs()
	if r.Bool(30) {
		m.BeaconID = ids[r.Intn(len(ids))]
	}
	switch r.Intn(5) {
	case 0:
		m.ChainHash, _ = hex.DecodeString(e.chainHashHex(ids[r.Intn(len(ids))]))
	case 1:
		m.ChainHash = fzBytes(r, nil)
	}
	if r.Bool(30) {
		pre := "x"
		m.NodeVersion = &drand.NodeVersion{Major: uint32(r.Intn(4)), Minor: uint32(r.Intn(3)), Patch: uint32(r.Intn(50))}
		if r.Bool(30) {
			m.NodeVersion.Prerelease = &pre
		}
	}
	return m
}

func (e *daemonEngine) fzParticipant(r *Rng) *pdkg.Participant {
	switch r.Intn(6) {
	case 0:
		return nil
	case 1:
		return &pdkg.Participant{}
	case 2:
		return &pdkg.Participant{Address: "evil.sim:1", Key: fzBytes(r, nil), Signature: fzBytes(r, nil)}
	}
	n := e.nodes[r.Intn(len(e.nodes))]
	p := e.participant(n, "default")
	if r.Bool(25) {
		p.Key = fzBytes(r, p.Key)
	}
	if r.Bool(25) {
		p.Signature = fzBytes(r, p.Signature)
	}
	return p
}

func (e *daemonEngine) fzParticipants(r *Rng) []*pdkg.Participant {
	var out []*pdkg.Participant
	for k := r.Intn(5); k > 0; k-- {
		out = append(out, e.fzParticipant(r))
	}
	return out
}

func fzTime(r *Rng) *timestamppb.Timestamp {
	switch r.Intn(5) {
	case 0:
		return nil
	case 1:
		return &timestamppb.Timestamp{Seconds: -1 << 62, Nanos: -5}
	case 2:
		return &timestamppb.Timestamp{Seconds: 1 << 61}
	case 3:
		return timestamppb.New(time.Now().Add(-time.Hour))
	}
	return timestamppb.New(time.Now().Add(time.Minute))
}

func (e *daemonEngine) fzGossipMeta(r *Rng) *pdkg.GossipMetadata {
	switch r.Intn(6) {
	case 0:
		return nil
	case 1:
		return &pdkg.GossipMetadata{}
	}
	m := &pdkg.GossipMetadata{BeaconID: r.Pick("default", "default", "", "unknown"), Address: e.nodes[r.Intn(len(e.nodes))].addr}
	m.Signature = fzBytes(r, bytes.Repeat([]byte{7}, 96))
	if r.Bool(40) {
		// a signature nobody has seen yet (the dedup set is keyed by it)
		m.Signature = []byte(fmt.Sprintf("%016x%016x", r.U64(), r.U64()))
	}
	return m
}

func (e *daemonEngine) fzDKGPacket(r *Rng) *pdkg.DKGPacket {
	switch r.Intn(5) {
	case 0:
		return &pdkg.DKGPacket{}
	case 1:
		return &pdkg.DKGPacket{Dkg: &pdkg.Packet{}}
	}
	p := &pdkg.Packet{Metadata: e.fzMetadata(r)}
	switch r.Intn(4) {
	case 0:
		p.Bundle = &pdkg.Packet_Deal{Deal: &pdkg.DealBundle{DealerIndex: uint32(r.Intn(9)), Commits: [][]byte{fzBytes(r, nil), nil}, Deals: []*pdkg.Deal{nil, {ShareIndex: 1 << 30, EncryptedShare: fzBytes(r, nil)}}, SessionId: fzBytes(r, nil), Signature: fzBytes(r, nil)}}
	case 1:
		p.Bundle = &pdkg.Packet_Response{Response: &pdkg.ResponseBundle{ShareIndex: uint32(r.Intn(9)), Responses: []*pdkg.Response{nil, {DealerIndex: 99}}, SessionId: fzBytes(r, nil), Signature: fzBytes(r, nil)}}
	case 2:
		p.Bundle = &pdkg.Packet_Justification{Justification: &pdkg.JustificationBundle{DealerIndex: uint32(r.Intn(9)), Justifications: []*pdkg.Justification{nil, {ShareIndex: 7, Share: fzBytes(r, nil)}}, SessionId: fzBytes(r, nil), Signature: fzBytes(r, nil)}}
	case 3:
		p.Bundle = &pdkg.Packet_Deal{Deal: nil}
	}
	return &pdkg.DKGPacket{Dkg: p}
}

// fzRequest draws one request: (method, message, label of the variant).
func (e *daemonEngine) fzRequest(r *Rng) (string, proto.Message, string) {
	cur := e.curRound("default")
	rounds := []uint64{0, 1, cur, cur + 1, cur + 2, cur + 1000, 1 << 40, ^uint64(0), ^uint64(0) >> 1}
	switch r.Intn(12) {
	case 0:
		return MPartial, &drand.PartialBeaconPacket{Round: rounds[r.Intn(len(rounds))], PreviousSignature: fzBytes(r, nil), PartialSig: fzBytes(r, nil), Metadata: e.fzMetadata(r)}, "partial"
	case 1:
		return MSyncChain, &drand.SyncRequest{FromRound: rounds[r.Intn(len(rounds))], Metadata: e.fzMetadata(r)}, "sync"
	case 2:
		return MIdentity, &drand.IdentityRequest{Metadata: e.fzMetadata(r)}, "identity"
	case 3:
		req := &drand.StatusRequest{Metadata: e.fzMetadata(r)}
		for k := r.Intn(4); k > 0; k-- {
			req.CheckConn = append(req.CheckConn, []*drand.Address{nil, {}, {Address: "nowhere.sim:1"}, {Address: e.nodes[r.Intn(len(e.nodes))].addr}}[r.Intn(4)])
		}
		return MStatus, req, "status"
	case 4:
		return MPublicRand, &drand.PublicRandRequest{Round: rounds[r.Intn(len(rounds))], Metadata: e.fzMetadata(r)}, "publicrand"
	case 5:
		return MRandStream, &drand.PublicRandRequest{Round: rounds[r.Intn(len(rounds))], Metadata: e.fzMetadata(r)}, "randstream"
	case 6:
		return MChainInfo, &drand.ChainInfoRequest{Metadata: e.fzMetadata(r)}, "chaininfo"
	case 7:
		return MListBeacons, &drand.ListBeaconIDsRequest{}, "listbeacons"
	case 8:
		return MDKGBcast, e.fzDKGPacket(r), "broadcastdkg"
	}
	// gossip packet, every oneof variant
	g := &pdkg.GossipPacket{Metadata: e.fzGossipMeta(r)}
	label := "gossip-none"
	switch r.Intn(8) {
	case 0:
		label = "gossip-proposal"
		var terms *pdkg.ProposalTerms
		if r.Bool(85) {
			terms = &pdkg.ProposalTerms{BeaconID: r.Pick("default", "", "unknown"), Epoch: uint32(r.Intn(4)), Leader: e.fzParticipant(r), Threshold: uint32(r.Intn(6)), Timeout: fzTime(r),
				CatchupPeriodSeconds: uint32(r.Intn(3)), BeaconPeriodSeconds: uint32(r.Intn(3)), SchemeID: r.Pick(e.sc.Scheme, "", "nope"), GenesisTime: fzTime(r), GenesisSeed: fzBytes(r, nil),
				Joining: e.fzParticipants(r), Remaining: e.fzParticipants(r), Leaving: e.fzParticipants(r)}
		}
		g.Packet = &pdkg.GossipPacket_Proposal{Proposal: terms}
	case 1:
		label = "gossip-accept"
		var a *pdkg.AcceptProposal
		if r.Bool(80) {
			a = &pdkg.AcceptProposal{Acceptor: e.fzParticipant(r)}
		}
		g.Packet = &pdkg.GossipPacket_Accept{Accept: a}
	case 2:
		label = "gossip-reject"
		var a *pdkg.RejectProposal
		if r.Bool(80) {
			a = &pdkg.RejectProposal{Rejector: e.fzParticipant(r), Reason: "x"}
		}
		g.Packet = &pdkg.GossipPacket_Reject{Reject: a}
	case 3:
		label = "gossip-abort"
		var a *pdkg.AbortDKG
		if r.Bool(80) {
			a = &pdkg.AbortDKG{Reason: "x"}
		}
		g.Packet = &pdkg.GossipPacket_Abort{Abort: a}
	case 4:
		label = "gossip-execute"
		var a *pdkg.StartExecution
		if r.Bool(80) {
			a = &pdkg.StartExecution{Time: fzTime(r)}
		}
		g.Packet = &pdkg.GossipPacket_Execute{Execute: a}
	case 5, 6:
		label = "gossip-dkg"
		g.Packet = &pdkg.GossipPacket_Dkg{Dkg: e.fzDKGPacket(r)}
	}
	return MDKGPacket, g, label
}

// timedCall sends one request straight to the node's endpoint (through the real
// interceptor chain) with the deadline a real client would set, and waits for the
// handler itself - not the caller - to come back.
func (e *daemonEngine) timedCall(n *dNode, method string, msg proto.Message, label string, bound time.Duration) (returned bool, err error) {
	b, merr := proto.Marshal(msg)
	if merr != nil {
		return true, merr
	}
	ep := &daemonEP{n}
	base, cancelBase := serverCtx("fuzzer.sim:1")
	defer cancelBase()
	ctx, cancel := context.WithTimeout(base, unaryTimeout)
	defer cancel()
	done := make(chan error, 1)
	go func() {
		if method == MSyncChain || method == MRandStream {
			items := 0
			done <- ep.Stream(ctx, method, b, func(proto.Message) error {
				items++
				if items >= 3 {
					cancel()
				}
				return ctx.Err()
			})
			return
		}
		_, err := ep.Unary(ctx, method, b)
		done <- err
	}()
	e.rec.Count("fuzz:"+label, 1)
	select {
	case err := <-done:
		if e.keepIO && err != nil {
			e.wireMu.Lock()
			e.wire.WriteString(err.Error())
			e.wire.WriteByte(0)
			e.wireMu.Unlock()
		}
		return true, err
	case <-time.After(bound):
		e.rec.Violate("C14", "request-never-returned", label, "node %s: %s (%s) did not return within %s of virtual time although its caller's deadline was %s", n.addr, method, label, bound, unaryTimeout)
		return false, nil
	}
}

func (e *daemonEngine) fuzz(n *dNode, count int, at int64) {
	r := NewRng(H64(e.sc.Seed, "fuzz", n.idx, at))
	for i := 0; i < count; i++ {
		if !n.up {
			return
		}
		method, msg, label := e.fzRequest(r)
		bound := 15 * time.Second
		if method == MPublicRand {
			bound = e.period() + 8*time.Second
		}
		if ok, _ := e.timedCall(n, method, msg, label, bound); !ok {
			return
		}
		if r.Bool(20) {
			e.fuzzHTTP(n, r)
		}
		time.Sleep(time.Duration(r.Range(1, 200)) * time.Millisecond)
	}
	e.probe(n, "after-fuzz")
}

func (e *daemonEngine) fuzzHTTP(n *dNode, r *Rng) {
	n.mu.Lock()
	dd := n.dd
	n.mu.Unlock()
	if dd == nil {
		return
	}
	paths := []string{"/public/-1", "/public/abc", "/public/18446744073709551616", "/public/0", "/public/latest/x", "//public/latest", "/zz/public/latest",
		"/" + strings.Repeat("ab", 32) + "/public/latest", "/" + e.chainHashHex("default") + "/public/99999999999", "/info/", "/chains/x", "/health", "/" + strings.Repeat("f", 5000)}
	p := paths[r.Intn(len(paths))]
	done := make(chan struct{})
	go func() {
		defer close(done)
		defer func() {
			if x := recover(); x != nil {
				e.rec.Count("probe:http_panic", 1)
			}
		}()
		rec := httptest.NewRecorder()
		req := httptest.NewRequest("GET", "http://node"+p, nil)
		ctx, cancel := context.WithTimeout(context.Background(), 10*time.Second)
		defer cancel()
		dd.VerifHTTP().ServeHTTP(rec, req.WithContext(ctx))
	}()
	e.rec.Count("fuzz:http", 1)
	select {
	case <-done:
	case <-time.After(e.period() + 20*time.Second):
		e.rec.Violate("C14", "request-never-returned", "http", "node %s: GET %s did not return", n.addr, p[:min(len(p), 60)])
	}
}

// probe: after hostile traffic the node still serves valid requests on every endpoint
// and its DKG process still takes commands (the lock is free).
func (e *daemonEngine) probe(n *dNode, when string) {
	n.mu.Lock()
	dd := n.dd
	n.mu.Unlock()
	if dd == nil || n.dead {
		return
	}
	md := func() *drand.Metadata { return &drand.Metadata{BeaconID: "default"} }
	e.rec.Count("probe:probes", 1)
	type pr struct {
		method string
		msg    proto.Message
		label  string
		mustOK bool
	}
	loaded := e.bp(n, "default") != nil
	running := e.chains["default"].chain != nil && loaded && e.bp(n, "default").VerifHandler() != nil
	probes := []pr{
		{MIdentity, &drand.IdentityRequest{Metadata: md()}, "probe-identity", loaded},
		{MListBeacons, &drand.ListBeaconIDsRequest{}, "probe-listbeacons", true},
		{MChainInfo, &drand.ChainInfoRequest{Metadata: md()}, "probe-chaininfo", running},
		{MPublicRand, &drand.PublicRandRequest{Round: 0, Metadata: md()}, "probe-publicrand", running && e.curRound("default") >= 2},
		{MStatus, &drand.StatusRequest{Metadata: md()}, "probe-status", loaded},
		// a gossip packet with a fresh signature: takes the DKG lock, is rejected for its content
		{MDKGPacket, &pdkg.GossipPacket{Metadata: &pdkg.GossipMetadata{BeaconID: "default", Address: e.nodes[0].addr, Signature: []byte(fmt.Sprintf("probe-%s-%d-%d", when, n.idx, time.Now().UnixNano()))},
			Packet: &pdkg.GossipPacket_Abort{Abort: &pdkg.AbortDKG{Reason: "probe"}}}, "probe-gossip", false},
	}
	snap := func() (int, bool) {
		n.mu.Lock()
		defer n.mu.Unlock()
		return n.routeVer, n.stopped["default"] || n.limbo["default"]
	}
	for _, p := range probes {
		ver, off := snap()
		ok, err := e.timedCall(n, p.method, p.msg, p.label, 15*time.Second)
		if !ok {
			return
		}
		if v2, off2 := snap(); off || off2 || v2 != ver || ver%2 == 1 {
			continue // the operator stopped or (re)loaded the chain around this request: a refusal is in order
		}
		if p.mustOK && err != nil {
			e.rec.Violate("C14", "valid-request-refused-after-hostile-traffic", p.label, "node %s (%s): %s failed: %v", n.addr, when, p.method, err)
		}
	}
	// operator side: a DKG status and a command must come back
	done := make(chan struct{})
	go func() {
		defer close(done)
		_, _ = dd.DKGStatus(context.Background(), &pdkg.DKGStatusRequest{BeaconID: "default"})
		// accepting when nothing is proposed is an error, but it needs the process lock
		_, _ = dd.Command(context.Background(), &pdkg.DKGCommand{Metadata: &pdkg.CommandMetadata{BeaconID: "default"}, Command: &pdkg.DKGCommand_Reject{Reject: &pdkg.RejectOptions{}}})
	}()
	select {
	case <-done:
	case <-time.After(20 * time.Second):
		e.rec.Violate("C14", "dkg-process-wedged", "command", "node %s (%s): a DKG command did not return within 20 s: the process lock is held", n.addr, when)
	}
}

// ---------------------------------------------------------------- C15: secrets

func encodings(b []byte) [][]byte {
	rev := make([]byte, len(b))
	for i := range b {
		rev[len(b)-1-i] = b[i]
	}
	var out [][]byte
	for _, x := range [][]byte{b, rev} {
		out = append(out, x, []byte(hex.EncodeToString(x)), []byte(strings.ToUpper(hex.EncodeToString(x))),
			[]byte(base64.StdEncoding.EncodeToString(x)), []byte(base64.URLEncoding.EncodeToString(x)), []byte(base64.RawStdEncoding.EncodeToString(x)))
	}
	return out
}

func (e *daemonEngine) scanSecrets() {
	type secret struct {
		who  string
		what string
		enc  [][]byte
	}
	var secrets []secret
	for _, n := range e.nodes {
		for id, p := range n.pairs {
			if b, err := p.Key.MarshalBinary(); err == nil && len(b) >= 16 {
				secrets = append(secrets, secret{n.addr, "long-term private key (" + id + ")", encodings(b)})
			}
		}
		for _, id := range e.beaconIDs() {
			if bp := e.bp(n, id); bp != nil {
				if sh := bp.VerifShare(); sh != nil {
					if b, err := sh.Share.V.MarshalBinary(); err == nil {
						secrets = append(secrets, secret{n.addr, "key share (" + id + ")", encodings(b)})
					}
				}
			}
		}
	}
	// shares of earlier epochs were read when each epoch was collected
	for _, s := range e.oldShares {
		secrets = append(secrets, secret{s.who, "key share of an earlier epoch", encodings(s.b)})
	}
	e.wireMu.Lock()
	wire := append([]byte(nil), e.wire.Bytes()...)
	e.wireMu.Unlock()
	e.rec.Count("probe:wire_bytes_scanned", len(wire))
	for _, s := range secrets {
		for k, enc := range s.enc {
			if len(enc) < 16 {
				continue
			}
			if bytes.Contains(wire, enc) {
				e.rec.Violate("C15", "secret-on-the-wire", fmt.Sprintf("enc%d", k), "%s of %s appears in a message, response or HTTP body", s.what, s.who)
			}
			for _, n := range e.nodes {
				n.mu.Lock()
				found := bytes.Contains(n.logBuf.Bytes(), enc)
				n.mu.Unlock()
				if found {
					e.rec.Violate("C15", "secret-in-log", fmt.Sprintf("enc%d", k), "%s of %s appears in the log of %s", s.what, s.who, n.addr)
				}
			}
		}
	}
	// what went to the process's standard output (loggers built without an output), and content that was written
	// to files others could read at that moment
	e.stdoutMu.Lock()
	so := append([]byte(nil), e.stdoutLog.Bytes()...)
	loose := append([]looseWrite(nil), e.looseWrites...)
	e.stdoutMu.Unlock()
	e.rec.Count("probe:stdout_log_bytes_scanned", len(so))
	for _, s := range secrets {
		for k, enc := range s.enc {
			if len(enc) < 16 {
				continue
			}
			if bytes.Contains(so, enc) {
				e.rec.Violate("C15", "secret-in-log", fmt.Sprintf("stdout-enc%d", k), "%s of %s appears in what the daemon writes to its standard output", s.what, s.who)
			}
			for _, lw := range loose {
				if lw.node == s.who && bytes.Contains(lw.content, enc) {
					e.rec.Violate("C15", "secret-file-not-owner-only", filepath.Base(lw.path)+" while being written", "%s received the %s of %s while its mode was %o", filepath.Base(lw.path), s.what, s.who, lw.mode)
				}
			}
		}
	}
	logBytes := 0
	for _, n := range e.nodes {
		logBytes += n.logBuf.Len()
	}
	e.rec.Count("probe:log_bytes_scanned", logBytes)
	e.rec.Count("probe:secrets_scanned", len(secrets))
	// files: whatever holds a secret must be owner-only
	for _, n := range e.nodes {
		_ = filepath.Walk(n.dir, func(p string, fi os.FileInfo, err error) error {
			if err != nil || fi.IsDir() || fi.Size() > 8<<20 {
				return nil
			}
			b, err := os.ReadFile(p)
			if err != nil {
				return nil
			}
			e.rec.Count("probe:files_scanned", 1)
			for _, s := range secrets {
				if s.who != n.addr {
					continue
				}
				for _, enc := range s.enc {
					if len(enc) >= 16 && bytes.Contains(b, enc) {
						n.mu.Lock()
						h, was := n.loosened[filepath.Base(p)]
						n.mu.Unlock()
						if was && h == sha256Digest(b) {
							return nil // still the file the "restore" left behind: drand has not written it since
						}
						if fi.Mode().Perm()&0o077 != 0 {
							rel, _ := filepath.Rel(n.dir, p)
							e.rec.Violate("C15", "secret-file-not-owner-only", filepath.Base(p), "%s holds the %s of %s with mode %o", rel, s.what, n.addr, fi.Mode().Perm())
						}
						e.rec.Count("probe:secret_files_found", 1)
						return nil
					}
				}
			}
			return nil
		})
	}
}

// ---------------------------------------------------------------- C19: routing

func (e *daemonEngine) stopBeacon(n *dNode, id string) {
	n.mu.Lock()
	dd := n.dd
	n.mu.Unlock()
	if dd == nil {
		return
	}
	n.bumpRoute()
	defer n.bumpRoute()
	_, err := dd.Shutdown(context.Background(), &drand.ShutdownRequest{Metadata: &drand.Metadata{BeaconID: id}})
	e.rec.Ev("stop_beacon", n.addr, "%s err=%v", id, err)
	if err == nil {
		n.mu.Lock()
		if n.stopped == nil {
			n.stopped = map[string]bool{}
		}
		n.stopped[id] = true
		delete(n.limbo, id)
		n.mu.Unlock()
		e.rec.Count("fault:beacon_stopped", 1)
	}
}

func (e *daemonEngine) loadBeacon(n *dNode, id string) {
	n.mu.Lock()
	dd := n.dd
	n.mu.Unlock()
	if dd == nil {
		return
	}
	n.bumpRoute()
	defer n.bumpRoute()
	_, err := dd.LoadBeacon(context.Background(), &drand.LoadBeaconRequest{Metadata: &drand.Metadata{BeaconID: id}})
	e.rec.Ev("load_beacon", n.addr, "%s err=%v", id, err)
	if err != nil {
		e.rec.Count("probe:load_beacon_failed", 1)
		// loaded half-way: what this id resolves to is not specified until it is stopped again
		n.mu.Lock()
		delete(n.stopped, id)
		if n.limbo == nil {
			n.limbo = map[string]bool{}
		}
		n.limbo[id] = true
		n.mu.Unlock()
	}
	if err == nil {
		n.mu.Lock()
		delete(n.stopped, id)
		n.mu.Unlock()
		e.rec.Count("fault:beacon_reloaded", 1)
	}
}

// routeCheck: every (beacon id, chain hash) combination on the endpoints that
// carry metadata; a successful answer must belong to the chain the request names.
func (e *daemonEngine) routeCheck(n *dNode, at int64) {
	ids := e.beaconIDs()
	type opt struct {
		id   string
		set  bool
		hash []byte
		hid  string // chain the hash belongs to ("" none/unknown)
		bad  bool
	}
	idOpts := []opt{{set: false}, {id: "default", set: true}, {id: "unknown-chain", set: true}}
	for _, id := range ids {
		if id != "default" {
			idOpts = append(idOpts, opt{id: id, set: true})
		}
	}
	hashOpts := []opt{{}}
	for _, id := range ids {
		h, _ := hex.DecodeString(e.chainHashHex(id))
		hashOpts = append(hashOpts, opt{hash: h, hid: id})
	}
	hashOpts = append(hashOpts, opt{hash: bytes.Repeat([]byte{0xab}, 32), bad: true}, opt{hash: []byte{1, 2, 3}, bad: true})
	// the set of running chains may change while requests are in flight: a verdict is only
	// given when no stop/load began or ended between sending a request and reading its answer
	snapshot := func() (int, map[string]bool) {
		n.mu.Lock()
		defer n.mu.Unlock()
		st := map[string]bool{}
		for k, v := range n.stopped {
			st[k] = v
		}
		for k := range n.limbo {
			st["limbo:"+k] = true
		}
		return n.routeVer, st
	}
	for _, io := range idOpts {
		for _, ho := range hashOpts {
			ver, stopped := snapshot()
			if ver%2 == 1 {
				continue
			}
			stable := func() bool { v, _ := snapshot(); return v == ver }
			md := &drand.Metadata{ChainHash: ho.hash}
			if io.set {
				md.BeaconID = io.id
			}
			// which chain may answer
			expect := ""
			switch {
			case ho.hid != "" && (!io.set || io.id == ho.hid || (io.id == "" && ho.hid == "default")):
				expect = ho.hid
			case ho.hid != "" && io.set && io.id != ho.hid:
				expect = "" // mismatching pair: must be refused
			case ho.hash == nil && io.set:
				expect = io.id
			case ho.hash == nil && !io.set:
				expect = "default"
			}
			if stopped["limbo:"+expect] || (ho.hid != "" && stopped["limbo:"+ho.hid]) || (io.set && stopped["limbo:"+io.id]) {
				continue
			}
			if ho.bad || expect == "unknown-chain" || stopped[expect] {
				expect = ""
			}
			known := false
			for _, id := range ids {
				if id == expect {
					known = true
				}
			}
			if !known {
				expect = ""
			}
			e.rec.Count("probe:route_requests", 1)
			cl := e.client("route")
			// PublicRand
			if resp, err := cl.PublicRand(context.Background(), n.pairs["default"].Public, &drand.PublicRandRequest{Round: 0, Metadata: proto.Clone(md).(*drand.Metadata)}); err == nil && stable() {
				e.routeVerify(n, "PublicRand", io.id, io.set, ho.hash, expect, func(cc *chainCtx) bool {
					return resp.Round == 0 || cc.chain.CheckBeacon(resp.Round, prevFor(cc, resp.Round, resp.PreviousSignature), resp.Signature) == ""
				})
			}
			// ChainInfo
			if resp, err := cl.ChainInfo(context.Background(), n.pairs["default"].Public, &drand.ChainInfoRequest{Metadata: proto.Clone(md).(*drand.Metadata)}); err == nil && stable() {
				e.routeVerify(n, "ChainInfo", io.id, io.set, ho.hash, expect, func(cc *chainCtx) bool {
					return hex.EncodeToString(resp.Hash) == e.chainHashHex(cc.id)
				})
			}
			// GetIdentity
			if resp, err := cl.GetIdentity(context.Background(), n.pairs["default"].Public, &drand.IdentityRequest{Metadata: proto.Clone(md).(*drand.Metadata)}); err == nil && stable() {
				e.routeVerify(n, "GetIdentity", io.id, io.set, ho.hash, expect, func(cc *chainCtx) bool {
					kb, _ := n.pairs[cc.id].Public.Key.MarshalBinary()
					return bytes.Equal(resp.Key, kb) && resp.SchemeName == cc.sch.Name
				})
			}
		}
	}
	// HTTP: paths under a chain hash serve that chain only
	n.mu.Lock()
	dd := n.dd
	n.mu.Unlock()
	if dd == nil {
		return
	}
	for _, id := range ids {
		ver, stopped := snapshot()
		if ver%2 == 1 || stopped["limbo:"+id] {
			continue
		}
		rec := httptest.NewRecorder()
		func() {
			defer func() { _ = recover() }()
			ctx, cancel := context.WithTimeout(context.Background(), 5*time.Second)
			defer cancel()
			dd.VerifHTTP().ServeHTTP(rec, httptest.NewRequest("GET", "/"+e.chainHashHex(id)+"/info", nil).WithContext(ctx))
		}()
		if v, _ := snapshot(); v != ver {
			continue
		}
		if rec.Code == 200 {
			if stopped[id] {
				e.rec.Violate("C19", "stopped-chain-still-served", "http", "node %s: GET /<hash of %s>/info answered after the chain was stopped", n.addr, id)
			} else if !strings.Contains(rec.Body.String(), e.chainHashHex(id)) {
				e.rec.Violate("C19", "answered-by-another-chain", "http", "node %s: GET /<hash of %s>/info returned another chain's info", n.addr, id)
			}
		}
	}
}

func (e *daemonEngine) routeVerify(n *dNode, where, id string, idSet bool, hash []byte, expect string, belongs func(cc *chainCtx) bool) {
	desc := fmt.Sprintf("id=%q(set=%v) hash=%x", id, idSet, head(hash))
	if expect == "" {
		// a refusal was due; an answer is only acceptable if ... it is not: find out whose it is
		for _, cc := range e.chains {
			if cc.chain != nil && belongs(cc) {
				e.rec.Violate("C19", "request-that-must-be-refused-was-served", where, "node %s: %s with %s was answered by chain %q", n.addr, where, desc, cc.id)
				return
			}
		}
		e.rec.Violate("C19", "request-that-must-be-refused-was-served", where, "node %s: %s with %s was answered", n.addr, where, desc)
		return
	}
	cc := e.chains[expect]
	if cc.chain == nil {
		return
	}
	e.rec.Count("probe:route_answers_checked", 1)
	if !belongs(cc) {
		e.rec.Violate("C19", "answered-by-another-chain", where, "node %s: %s with %s should be served by chain %q and was not", n.addr, where, desc, expect)
	}
}
