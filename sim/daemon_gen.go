package zverif

import (
	"sort"

	pubchain "github.com/drand/drand/v2/common/chain"
	"github.com/drand/drand/v2/common/key"
)

func chainHashOf(g *key.Group) []byte { return pubchain.NewChainInfo(g).Hash() }

// applyExtra / finalExtra: property-specific actions (fuzzing, secrets, multi-chain, crash) live in daemon_extra.go

// GenDaemon draws one E-daemon scenario biased towards prop.
func GenDaemon(prop string, seed uint64, tier string) *DaemonScenario {
	if prop == "C20" {
		// the round-trip observers watch what key-generation histories write and send: first
		// generations with a member that drops out (share indices with a hole), resharings that
		// change size and threshold in both directions, every status of the state machine; a
		// member is restarted at the end so that it reloads what it wrote
		inner := []string{"C06", "C07", "C07", "C08"}[seed%4]
		sc := GenDaemon(inner, seed, tier)
		sc.Prop = "C20"
		r := NewRng(seed ^ 0xc20c20)
		if inner == "C07" {
			for i := range sc.Reshares {
				if p := &sc.Reshares[i]; p.Fail == "" && r.Bool(50) {
					nm := sc.N + len(p.Join) - len(p.Leave)
					p.NewT = nm/2 + 1 // the smallest legal threshold: shares and group files get shorter
				}
			}
		}
		if inner != "C08" && !sc.DKGOnly && sc.HealAtMs > 4000 {
			n := r.Intn(sc.N)
			sc.Script = append(sc.Script, Act{AtMs: sc.HealAtMs - 2500, Kind: "stop", Node: n}, Act{AtMs: sc.HealAtMs - 300, Kind: "start", Node: n})
		}
		return sc
	}
	if prop == "C14" && seed%6 == 5 {
		// what lying and stalling peers stream to a node that follows or repairs a chain is hostile input too:
		// a panic there kills the process like any other
		sc := GenDaemon("C10", seed, tier)
		sc.Prop = "C14"
		if sc.Check != nil {
			sc.Check.Corrupt = 0 // the store is not damaged on purpose here: what it serves is judged
		}
		return sc
	}
	if prop == "C02" && seed%2 == 1 {
		// check and repair write into the store below the append-only layer: the chain (or the ring's window)
		// must still be whole afterwards
		sc := GenDaemon("C10", seed, tier)
		sc.Prop = "C02"
		r := NewRng(seed ^ 0xc02c02)
		if r.Bool(60) {
			sc.Backend, sc.MemSize = "memdb", r.Range(10, 13)
			sc.OnlyCheckNodeInMemory = r.Bool(70)
		}
		if sc.Check == nil {
			cp := &CheckPlan{AtMs: sc.HealAtMs - int64(r.Range(1, 3))*int64(sc.PeriodS)*1000, Node: r.Intn(sc.N)}
			for i := 0; i < sc.N; i++ {
				if i != cp.Node {
					cp.Peers = append(cp.Peers, i)
				}
			}
			sc.Check = cp
		}
		sc.Check.Corrupt = 0 // the store is not damaged on purpose here: the final scan judges what it holds
		return sc
	}
	if prop == "C01" && seed%4 == 3 {
		// the store of a follower and of a node repairing its chain is filled by peers alone, some of them lying
		sc := GenDaemon("C10", seed, tier)
		sc.Prop = "C01"
		if sc.Check != nil {
			sc.Check.Corrupt = 0 // the store is not damaged on purpose here: what it holds and serves is judged
		}
		return sc
	}
	r := NewRng(seed ^ 0xdae401)
	sc := &DaemonScenario{Engine: "daemon", Prop: prop, Seed: seed}
	sc.N = r.Range(3, 5)
	if r.Bool(10) {
		sc.N = 2
	}
	sc.T = r.Range(sc.N/2+1, sc.N)
	sc.Scheme = SchemeNames[r.Intn(len(SchemeNames))]
	if r.Bool(30) {
		sc.Scheme = SchemeNames[0]
	}
	sc.PeriodS = r.Range(2, 3) // the catch-up period is whole seconds (>= 1): it must be shorter than the period for a gap to close
	if prop == "C06" || prop == "C19" || prop == "C14" || prop == "C15" {
		sc.PeriodS = r.Range(1, 2)
	}
	sc.CatchupS = 1
	sc.Backend = r.Pick("bolt", "bolt", "memdb")
	sc.MemSize = r.Range(12, 40)
	sc.Net = NetPlan{BaseUs: []int{200, 1000, 5000}[r.Intn(3)], JitterUs: []int{100, 2000, 20000}[r.Intn(3)]}
	sc.PhaseS = r.Range(2, 3)
	sc.KickoffS = r.Range(1, 2)
	sc.GenesisInS = 2 + sc.KickoffS + 3*sc.PhaseS + 2 + r.Range(2, 4)
	if r.Bool(50) {
		sc.Yield = YieldPlan{Seed: r.U64(), PerMill: []int{5, 20, 60}[r.Intn(3)], MaxNs: []int{1000, 50_000}[r.Intn(2)]}
	}
	rounds := r.Range(8, 14)
	periodMs := int64(sc.PeriodS) * 1000
	g0 := int64(sc.GenesisInS) * 1000
	add := func(a Act) { sc.Script = append(sc.Script, a) }
	faultEnd := g0 + int64(rounds)*periodMs
	at := func() int64 { return g0 + int64(r.Intn(int(faultEnd-g0))) }
	use := map[string]bool{}
	for _, k := range []string{"partition", "stop", "loss", "clients"} {
		use[k] = r.Bool(50)
	}
	use["clients"] = true
	switch prop {
	case "C08", "C09":
		sc.N = r.Range(3, 4)
		sc.T = r.Range(sc.N/2+1, sc.N)
		sc.Extra = 1
		sc.PeriodS = 2
		sc.Net.DropPct, sc.Net.DupPct = 0, r.Range(0, 8)
		cmds := []string{"accept", "reject", "join", "execute", "abort", "reshare_ok", "reshare_ok", "reshare_ok_leaver", "reshare_low_threshold", "reshare_high_threshold", "reshare_expired",
			"reshare_drop_member", "reshare_leader_leaves", "reshare_unknown_remainer", "reshare_few_remainers", "reshare_few_remainers"}
		forges := []string{"proposal_by_attacker_key", "proposal_by_other_member_key", "proposal_with_shadow_joiner", "proposal_with_shadow_joiner", "accept_for_someone_else", "abort_by_non_leader", "execute_by_non_leader", "mut_sender", "mut_sigbyte", "mut_terms"}
		for k := r.Range(5, 12); k > 0; k-- {
			if prop == "C09" && r.Bool(65) || prop == "C08" && r.Bool(20) {
				sc.DKGSteps = append(sc.DKGSteps, DKGStep{K: "forge", Node: r.Intn(sc.N), S: forges[r.Intn(len(forges))], A: r.Intn(100)})
			} else {
				sc.DKGSteps = append(sc.DKGSteps, DKGStep{K: "cmd", Node: r.Intn(sc.N + 1), S: cmds[r.Intn(len(cmds))]})
			}
			if r.Bool(12) {
				sc.DKGSteps = append(sc.DKGSteps, DKGStep{K: "flow"})
			}
			if r.Bool(25) || prop == "C08" && r.Bool(30) {
				// a pending proposal, then something that needs one
				sc.DKGSteps = append(sc.DKGSteps, DKGStep{K: "cmd", Node: 0, S: r.Pick("reshare_ok", "reshare_ok", "reshare_ok_leaver")})
				if prop == "C09" && r.Bool(50) {
					// packets that only the leader may send, sent by another member, to every role
					sc.DKGSteps = append(sc.DKGSteps, DKGStep{K: "forge", Node: r.Intn(sc.N), S: r.Pick("execute_by_non_leader", "abort_by_non_leader"), A: r.Intn(100)},
						DKGStep{K: "forge", Node: sc.N - 1, S: "execute_by_non_leader", A: r.Intn(100)})
				}
				switch {
				case prop == "C08" || r.Bool(30):
					sc.DKGSteps = append(sc.DKGSteps, DKGStep{K: "race", S: r.Pick("accept", "reject"), A: []int{0, 1, 50, 500, 3000, 20000}[r.Intn(6)]})
				default:
					sc.DKGSteps = append(sc.DKGSteps, DKGStep{K: "accept_after_reject", A: r.Intn(4)})
				}
			}
			if prop != "C08" && r.Bool(25) {
				sc.DKGSteps = append(sc.DKGSteps, DKGStep{K: "flow"}, DKGStep{K: "intercept", S: r.Pick("move_remaining_to_leaving", "move_remaining_to_leaving", "threshold", "timeout", "catchup", "swap_remaining")})
			}
		}
		if prop == "C08" && sc.Yield.PerMill < 20 {
			sc.Yield = YieldPlan{Seed: r.U64(), PerMill: 100, MaxNs: 2_000_000}
		}
		sc.DKGSteps = append(sc.DKGSteps, DKGStep{K: "flow"})
		sc.Script = nil
		sc.HealAtMs = g0
		sc.Rounds = 4
		return sc
	case "C01":
		// requests landing in the very instants a round is produced, with wide schedule points
		sc.Yield = YieldPlan{Seed: r.U64(), PerMill: []int{60, 150, 300}[r.Intn(3)], MaxNs: []int{50_000, 2_000_000, 5_000_000}[r.Intn(3)]}
		sc.Net.BaseUs, sc.Net.JitterUs = 200, []int{100, 2000}[r.Intn(2)]
		for k := r.Range(3, 8); k > 0; k-- {
			add(Act{AtMs: at(), Kind: "rand_spray", Node: r.Intn(sc.N), A: int64([]int{100, 500, 2000}[r.Intn(3)]), B: int64(r.Range(5, 25))})
		}
	case "C13":
		return genCrash(seed, tier)
	case "C10":
		sc.Extra = 1 // the follower: a daemon that is not a member
		sc.N = r.Range(3, 4)
		sc.T = r.Range(sc.N/2+1, sc.N-1)
		sc.Backend = "bolt"
		if r.Bool(20) {
			// an in-memory ring smaller than the chain: check and repair then work on a window
			sc.Backend = "memdb"
			sc.MemSize = r.Range(10, 13) // 10 is the smallest ring the daemon accepts
		}
		rounds = r.Range(10, 16)
		faultEnd = g0 + int64(rounds)*periodMs
		use["stop"], use["partition"], use["loss"] = false, r.Bool(30), r.Bool(40)
		syncLies := []string{"bad_sig", "wrong_round", "relabel", "foreign_id", "garbage", "resend_forged", "resend_forged", "stall", "close_early"}
		infoLies := []string{"info_period", "info_genesis", "info_key"}
		fp := &FollowPlan{AtMs: g0 + int64(r.Range(3, rounds/2))*periodMs + int64(r.Intn(int(periodMs))), Node: sc.N, WrongHash: r.Bool(12)}
		if r.Bool(50) {
			fp.UpTo = uint64(r.Range(2, rounds))
		}
		for _, p := range r.Perm(sc.N)[:r.Range(1, sc.N)] {
			fp.Peers = append(fp.Peers, p)
		}
		for k := r.Intn(3); k > 0; k-- {
			l := syncLies[r.Intn(len(syncLies))]
			dup := false
			for _, x := range fp.Liars {
				dup = dup || x == l
			}
			if !dup {
				fp.Liars = append(fp.Liars, l)
			}
		}
		if r.Bool(25) {
			fp.Liars = append(fp.Liars, infoLies[r.Intn(len(infoLies))])
		}
		if r.Bool(40) {
			fp.KeyScheme = SchemeNames[r.Intn(len(SchemeNames))]
		}
		fp.Order = r.Perm(len(fp.Peers) + len(fp.Liars))
		if n := len(fp.Liars); n > 0 && len(fp.Liars[n-1]) > 5 && fp.Liars[n-1][:5] == "info_" {
			// is the chain-info liar the last peer asked?
			fp.InfoLiarLast = fp.Order[len(fp.Order)-1] == len(fp.Peers)+n-1
		}
		sc.Follow = fp
		if r.Bool(50) {
			cp := &CheckPlan{AtMs: g0 + int64(r.Range(rounds-3, rounds))*periodMs, Node: r.Intn(sc.N), Corrupt: r.Range(1, 4)}
			for i := 0; i < sc.N; i++ {
				if i != cp.Node {
					cp.Peers = append(cp.Peers, i)
				}
			}
			if r.Bool(40) {
				cp.Liars = []string{syncLies[r.Intn(6)]}
			}
			sc.Check = cp
		}
	case "C14", "C15":
		sc.Mode = "fuzz"
		sc.N = r.Range(3, 4)
		sc.T = r.Range(sc.N/2+1, sc.N)
		sc.Extra = 1 // a daemon that never takes part: the "fresh" state
		// hostile traffic in every state: before and during the key generation, while running
		for k := r.Range(2, 5); k > 0; k-- {
			t := int64(r.Range(500, int(g0)))
			if r.Bool(50) {
				t = at()
			}
			add(Act{AtMs: t, Kind: "fuzz", Node: r.Intn(sc.N + 1), A: int64(r.Range(5, 40))})
		}
		if r.Bool(40) {
			n := r.Intn(sc.N)
			t := at()
			add(Act{AtMs: t, Kind: "stop_beacon", Node: n, S: "default"})
			add(Act{AtMs: t + 200, Kind: "fuzz", Node: n, A: int64(r.Range(5, 30))})
		}
		use["stop"] = false
		if prop == "C15" && r.Bool(30) {
			// key-generation histories with forged packets: what a node answers to them is scanned too
			c9 := GenDaemon("C09", seed, tier)
			c9.Prop, c9.Mode = "C15", "secrets"
			return c9
		}
		if prop == "C15" {
			sc.Mode = "secrets"
			if r.Bool(60) {
				sc.Extra = 2
				sc.Reshares = []ResharePlan{{AtRound: r.Range(2, 3), Join: []int{sc.N + 1}, NewT: r.Range((sc.N+1)/2+1, sc.N+1)}}
				// a node folder restored with looser file modes before the resharing rewrites the share
				add(Act{AtMs: g0 + int64(sc.Reshares[0].AtRound-1)*periodMs - 500, Kind: "loosen_modes", Node: r.Intn(sc.N)})
				rounds = sc.Reshares[0].AtRound + 14 + (sc.KickoffS+3*sc.PhaseS)/sc.PeriodS
				faultEnd = g0 + int64(rounds)*periodMs
				if r.Bool(35) {
					sc.CloseDKGDBAtFinish = r.Intn(sc.N) + 1
				}
			}
		}
	case "C19":
		sc.BeaconIDs = []string{"default", "second"}
		if r.Bool(40) {
			sc.BeaconIDs = append(sc.BeaconIDs, "third")
		}
		if r.Bool(40) {
			// a chain the operators have generated keys for and not yet run a key generation of: it has no group
			sc.FreshIDs = []string{"notyet"}
		}
		sc.N = r.Range(2, 3)
		sc.T = r.Range(sc.N/2+1, sc.N)
		use["stop"], use["partition"], use["loss"] = false, false, false
		for k := r.Range(2, 4); k > 0; k-- {
			add(Act{AtMs: at(), Kind: "route", Node: r.Intn(sc.N)})
		}
		if sc.Backend == "bolt" && r.Bool(35) {
			// a chain whose database got damaged while it was stopped: loading it fails half-way; the
			// operator then removes it for good
			n, id := r.Intn(sc.N), sc.BeaconIDs[r.Intn(len(sc.BeaconIDs))]
			t := at()
			add(Act{AtMs: t, Kind: "stop_beacon", Node: n, S: id})
			add(Act{AtMs: t + 200, Kind: "corrupt_db", Node: n, S: id})
			add(Act{AtMs: t + 400, Kind: "load_beacon", Node: n, S: id})
			add(Act{AtMs: t + 1400, Kind: "stop_beacon", Node: n, S: id})
			add(Act{AtMs: t + 1800, Kind: "route", Node: n})
		} else if r.Bool(70) {
			n, id := r.Intn(sc.N), sc.BeaconIDs[r.Intn(len(sc.BeaconIDs))]
			t := at()
			add(Act{AtMs: t, Kind: "stop_beacon", Node: n, S: id})
			add(Act{AtMs: t + 300, Kind: "route", Node: n})
			if r.Bool(60) {
				add(Act{AtMs: t + int64(r.Range(1, 3))*periodMs, Kind: "load_beacon", Node: n, S: id})
				add(Act{AtMs: t + 4*periodMs, Kind: "route", Node: n})
			}
		}
	case "C06":
		sc.DKGOnly = r.Bool(50)
		sc.N = r.Range(2, 7)
		sc.T = r.Range(sc.N/2+1, sc.N)
		if sc.N >= 3 && sc.T < sc.N && r.Bool(35) {
			sc.DKGFault = &DKGFault{Kind: "down", Node: r.Range(1, sc.N-1)}
		}
		if !sc.DKGOnly && sc.DKGFault == nil && r.Bool(60) {
			// a resharing, with joiners most of the time: every completer must hold one group
			sc.Extra = r.Range(0, 2)
			p := ResharePlan{AtRound: r.Range(2, 4)}
			for j := 0; j < sc.Extra; j++ {
				p.Join = append(p.Join, sc.N+j)
			}
			nm := sc.N + sc.Extra
			p.NewT = r.Range(nm/2+1, nm)
			sc.Reshares = []ResharePlan{p}
			rounds = p.AtRound + (sc.KickoffS+3*sc.PhaseS)/sc.PeriodS + 4
			faultEnd = g0 + int64(rounds)*periodMs
			use["stop"], use["partition"] = false, false
		}
	case "C07":
		if r.Bool(25) {
			// replace shape: one member leaves, two join, and one remaining member goes down between the
			// end of the key generation and the transition: the old shares keep their threshold only
			// as long as the leaver is there, the new ones have theirs from the transition on
			sc.N, sc.T, sc.Extra = 4, 3, 2
			p := ResharePlan{AtRound: r.Range(2, 4), Join: []int{4, 5}, Leave: []int{r.Range(1, 3)}, NewT: 3, StopLeavers: r.Bool(70)}
			sc.Reshares = []ResharePlan{p}
			stop := 1
			for stop == p.Leave[0] {
				stop = r.Range(1, 3)
			}
			t0 := g0 + int64(p.AtRound-1)*periodMs + int64(sc.KickoffS+3*sc.PhaseS+4)*1000
			add(Act{AtMs: t0 + int64(r.Intn(2000)), Kind: "stop", Node: stop})
			rounds = p.AtRound + 12 + (sc.KickoffS+3*sc.PhaseS)/sc.PeriodS + 6
			faultEnd = g0 + int64(rounds)*periodMs
			use["stop"], use["partition"], use["loss"] = false, false, r.Bool(30)
			break
		}
		kinds := []string{"", "", "", "abort", "expire", "exec_partition"}
		sc.Extra = r.Range(0, 2)
		n := 1
		if r.Bool(25) {
			n = 2
		}
		atRound := r.Range(2, 4)
		members := sc.N
		for k := 0; k < n; k++ {
			p := ResharePlan{AtRound: atRound, Fail: kinds[r.Intn(len(kinds))]}
			if k == n-1 && n == 2 {
				p.Fail = "" // a failed attempt followed by a successful one
			}
			joined := 0
			if sc.Extra > 0 && k == 0 && r.Bool(70) {
				joined = r.Range(1, sc.Extra)
				for j := 0; j < joined; j++ {
					p.Join = append(p.Join, sc.N+j)
				}
			}
			if members > 2 && r.Bool(40) && k == 0 {
				p.Leave = []int{r.Range(1, sc.N-1)}
				p.StopLeavers = r.Bool(40)
			}
			nm := members + joined - len(p.Leave)
			lo := nm/2 + 1
			p.NewT = r.Range(lo, nm)
			if nm-len(p.Join) < sc.T { // remaining must be >= old threshold
				p.Leave = nil
				nm = members + joined
				p.NewT = r.Range(nm/2+1, nm)
			}
			if p.Fail == "" && k == n-1 && len(p.Leave) == 0 && members >= 4 && p.NewT <= nm-1 && r.Bool(25) {
				// one remaining member (never the first, which leads) accepts and is then down for the execution
				p.DownInExec = r.Range(1, members-1) + 1
			}
			sc.Reshares = append(sc.Reshares, p)
			if p.Fail == "" {
				members = nm
				atRound += 12 + sc.KickoffS + 3*sc.PhaseS
			} else {
				atRound += (sc.KickoffS+3*sc.PhaseS+12)/sc.PeriodS + 2
			}
		}
		rounds = atRound + 6
		use["stop"], use["partition"] = false, r.Bool(20)
		if len(sc.Reshares) == 1 && sc.Reshares[0].Fail == "" && len(sc.Reshares[0].Join) > 0 && r.Bool(50) {
			// between the end of the key generation and the transition some members of the old
			// group go away: a threshold of the new group stays up
			p := sc.Reshares[0]
			R, L, J := sc.N-len(p.Leave), len(p.Leave), len(p.Join)
			// until the round before the transition the old shares are needed (remainers + leavers),
			// from the transition on the new ones (remainers + joiners)
			canStop := R + L - sc.T
			if c2 := R + J - p.NewT; c2 < canStop {
				canStop = c2
			}
			t0 := g0 + int64(p.AtRound-1)*periodMs + int64(sc.KickoffS+3*sc.PhaseS+4)*1000
			for i := 1; i < sc.N && canStop > 0; i++ {
				leaving := false
				for _, l := range p.Leave {
					leaving = leaving || l == i
				}
				if !leaving && r.Bool(70) {
					add(Act{AtMs: t0 + int64(r.Intn(3000)), Kind: "stop", Node: i})
					canStop--
				}
			}
		}
	}
	if (prop == "C06" || prop == "C07") && r.Bool(40) {
		// one slow node: everything to and from it is late, by less than the kickoff grace period and the phases
		lim := int(periodMs)
		if k := sc.KickoffS * 1000; k < lim {
			lim = k
		}
		add(Act{AtMs: 100, Kind: "slow", Node: r.Intn(sc.N), A: int64(r.Range(100, lim*8/10))})
	}
	if use["loss"] {
		sc.Net.DropPct, sc.Net.DupPct = r.Range(1, 15), r.Range(0, 10)
		if prop == "C06" || prop == "C07" {
			// these two quantify over delay, reordering, duplication and slow nodes, not over loss
			// (a synchronous key generation does not promise agreement when messages vanish)
			sc.Net.DropPct = 0
			sc.Net.SlowPct, sc.Net.SlowMs = r.Range(5, 30), r.Range(50, 1500)
		}
		add(Act{AtMs: g0 + int64(r.Intn(int(periodMs))), Kind: "faults_on"})
	}
	if use["partition"] && sc.N >= 2 {
		sz := r.Range(1, sc.N-1)
		p := r.Perm(sc.N)[:sz]
		sort.Ints(p)
		t0 := at()
		add(Act{AtMs: t0, Kind: "partition", Nodes: p})
		add(Act{AtMs: t0 + int64(r.Range(1, 4))*periodMs, Kind: "heal"})
	}
	if use["stop"] && sc.N >= 2 {
		n := r.Intn(sc.N)
		t0 := at()
		add(Act{AtMs: t0, Kind: "stop", Node: n})
		add(Act{AtMs: t0 + int64(r.Range(1, 4))*periodMs + int64(r.Intn(int(periodMs))), Kind: "start", Node: n})
	}
	if use["clients"] {
		for k := r.Range(4, 14); k > 0; k-- {
			n := r.Intn(sc.N)
			switch r.Intn(7) {
			case 0:
				add(Act{AtMs: at(), Kind: "rand", Node: n, A: int64(r.Range(-1, rounds))})
			case 1:
				add(Act{AtMs: at(), Kind: "rand", Node: n, A: -1})
			case 2:
				add(Act{AtMs: at(), Kind: "http", Node: n, S: r.Pick("round", "latest", "next", "info", "chains", "health"), A: int64(r.Range(0, rounds))})
			case 3:
				add(Act{AtMs: at(), Kind: "http", Node: n, S: r.Pick("next", "next_cancel", "next_cancel"), A: int64(r.Intn(1000))})
			case 4:
				add(Act{AtMs: at(), Kind: "stream", Node: n, A: int64(r.Range(0, rounds/2)), B: int64(r.Range(2, 6))})
			case 5:
				add(Act{AtMs: at(), Kind: "sync", Node: n, A: int64(r.Range(1, rounds/2+1)), B: int64(r.Range(2, 6))})
			case 6:
				add(Act{AtMs: at(), Kind: "info", Node: n})
			}
		}
	}
	sc.HealAtMs = faultEnd
	for _, a := range sc.Script {
		if a.AtMs+periodMs > sc.HealAtMs {
			sc.HealAtMs = a.AtMs + periodMs
		}
	}
	sc.Rounds = int((sc.HealAtMs-g0)/periodMs) + 8 + rounds/2
	for _, p := range sc.Reshares {
		if p.Fail == "exec_partition" {
			// the driver isolates every participant during the execution; a scripted heal would lift that
			kept := sc.Script[:0]
			for _, a := range sc.Script {
				if a.Kind != "partition" && a.Kind != "heal" {
					kept = append(kept, a)
				}
			}
			sc.Script = kept
			break
		}
	}
	sort.SliceStable(sc.Script, func(i, j int) bool { return sc.Script[i].AtMs < sc.Script[j].AtMs })
	return sc
}

func ShrinkDaemon(sc *DaemonScenario) []*DaemonScenario {
	var out []*DaemonScenario
	cp := func() *DaemonScenario {
		c := *sc
		c.Script = append([]Act(nil), sc.Script...)
		c.Reshares = append([]ResharePlan(nil), sc.Reshares...)
		return &c
	}
	if len(sc.Script) > 0 {
		c := cp()
		c.Script = nil
		out = append(out, c)
		for i := range sc.Script {
			c = cp()
			c.Script = append(c.Script[:i:i], c.Script[i+1:]...)
			out = append(out, c)
		}
	}
	if sc.Yield.PerMill > 0 {
		c := cp()
		c.Yield = YieldPlan{}
		out = append(out, c)
	}
	if sc.Net.DropPct+sc.Net.DupPct > 0 {
		c := cp()
		c.Net.DropPct, c.Net.DupPct = 0, 0
		out = append(out, c)
	}
	if sc.Net.JitterUs > 100 {
		c := cp()
		c.Net.BaseUs, c.Net.JitterUs = 200, 100
		out = append(out, c)
	}
	if len(sc.Reshares) > 1 {
		c := cp()
		c.Reshares = c.Reshares[:len(c.Reshares)-1]
		out = append(out, c)
	}
	return out
}


// genCrash: the four deterministic scripts of C13 (production, resharing as a remaining
// member, leaving, joining); the seed enumerates (script, operation index, mode).
func genCrash(seed uint64, tier string) *DaemonScenario {
	variants := []string{"production", "reshare-remain", "reshare-leave", "reshare-join", "reshare-shrink"}
	modes := []struct {
		m   string
		pct int
	}{{"before", 0}, {"after", 0}, {"torn", 0}, {"torn", 50}, {"torn", 97}, {"mid", 0}, {"fstep", 1}, {"fstep", 2}, {"fstep", 3}, {"fstep", 4}, {"late", 0}}
	v := int(seed % uint64(len(variants)))
	idx := int(seed / uint64(len(variants)))
	mode := modes[idx%len(modes)]
	sc := &DaemonScenario{Engine: "daemon", Prop: "C13", Seed: uint64(v), Mode: variants[v]}
	sc.N, sc.T, sc.Scheme, sc.PeriodS, sc.CatchupS, sc.Backend = 3, 2, SchemeNames[0], 1, 1, "bolt"
	if v%2 == 1 {
		sc.Scheme = SchemeNames[1]
	}
	sc.Net = NetPlan{BaseUs: 1000, JitterUs: 2000}
	sc.PhaseS, sc.KickoffS = 2, 1
	sc.GenesisInS = 2 + sc.KickoffS + 3*sc.PhaseS + 3
	rounds := 5
	sc.Crash = &CrashPlan{Node: 1, AtIndex: idx / len(modes), Mode: mode.m, TornPct: mode.pct, DownMs: int64((idx%2)*3000 + 200)}
	switch variants[v] {
	case "reshare-remain":
		sc.Reshares = []ResharePlan{{AtRound: 2, NewT: 2}}
		rounds = 2 + 12 + sc.KickoffS + 3*sc.PhaseS + 3
	case "reshare-leave":
		sc.N, sc.T = 4, 3
		sc.Reshares = []ResharePlan{{AtRound: 2, NewT: 2, Leave: []int{1}}}
		rounds = 2 + 12 + sc.KickoffS + 3*sc.PhaseS + 3
	case "reshare-shrink":
		// the target stays while the group and the threshold get smaller: its files are rewritten with shorter content
		sc.N, sc.T = 4, 3
		sc.Reshares = []ResharePlan{{AtRound: 2, NewT: 2, Leave: []int{3}}}
		rounds = 2 + 12 + sc.KickoffS + 3*sc.PhaseS + 3
	case "reshare-join":
		sc.Extra = 1
		sc.Crash.Node = 3
		sc.Reshares = []ResharePlan{{AtRound: 2, NewT: 3, Join: []int{3}}}
		rounds = 2 + 12 + sc.KickoffS + 3*sc.PhaseS + 3
	}
	g0 := int64(sc.GenesisInS) * 1000
	// a client reads from the target now and then: what it was served must survive the crash
	for k := 1; k < rounds; k += 2 {
		sc.Script = append(sc.Script, Act{AtMs: g0 + int64(k)*1000 + 400, Kind: "rand", Node: sc.Crash.Node, A: 0})
	}
	// and one keeps a stream open on it: every round goes out the moment the node announces it
	sc.Script = append(sc.Script, Act{AtMs: g0 + 300, Kind: "stream", Node: sc.Crash.Node, A: 1, B: int64(rounds + 6)})
	sc.HealAtMs = g0 + int64(rounds)*1000
	sc.Rounds = rounds + 8
	return sc
}
