package zverif

import (
	dlog "github.com/drand/drand/v2/common/log"
	simrt "github.com/drand/drand/v2/zsimrt"
	bsimsync "go.etcd.io/bbolt/zsimsync"
	"bytes"
	"context"
	"crypto/sha256"
	"encoding/hex"
	"encoding/json"
	"fmt"
	"io"
	"net/http/httptest"
	"os"
	"sort"
	"strings"
	"testing"
	"testing/synctest"
	"time"

	"google.golang.org/protobuf/types/known/timestamppb"

	"github.com/drand/drand/v2/crypto"
	"github.com/drand/drand/v2/internal/chain"
	pdkg "github.com/drand/drand/v2/protobuf/dkg"
	"github.com/drand/drand/v2/protobuf/drand"
)

func sha256Digest(b []byte) [32]byte { return sha256.Sum256(b) }

// opsCache: number of persistence operations of the crash target per crash-free scenario.
var opsCache = map[string]int{}

// multiCache: the operations of that count that consisted of more than one write transaction.
var multiCache = map[string][]int{}

// orderCache: the order in which the operations are tried. Key-generation and key-file
// operations come first, the latest first (the completion of the last epoch change is where
// the multi-step sequences are); the chain store's puts follow in their own order.
var orderCache = map[string][]int{}

// fstepCache: per operation of that count, the number of file-level steps it consisted of.
var fstepCache = map[string][]int{}

// kindsCache: the kinds of the operations of that count, in order.
var kindsCache = map[string][]string{}

func crashOrder(kinds []string) []int {
	var first, rest []int
	for i := len(kinds) - 1; i >= 0; i-- {
		if kinds[i] != "chain.Put" {
			first = append(first, i+1)
		}
	}
	for i, k := range kinds {
		if k == "chain.Put" {
			rest = append(rest, i+1)
		}
	}
	return append(first, rest...)
}

// RunDaemon executes one scenario. A crash plan without an operation number is
// resolved first: a crash-free pass counts the target's persistence operations.
func RunDaemon(t *testing.T, sc *DaemonScenario, dump io.Writer) (res RunResult) {
	if sc.Crash != nil && sc.Crash.At == 0 {
		base := *sc
		cp := *sc.Crash
		cp.At, cp.AtIndex, cp.Mode, cp.TornPct, cp.DownMs = -1, 0, "", 0, 0
		base.Crash = &cp
		kb, _ := json.Marshal(base)
		key := string(kb)
		ops, ok := opsCache[key]
		if !ok {
			r0 := runDaemon1(t, &base, nil)
			if r0.HarnessErr != "" {
				r0.HarnessErr = "counting pass: " + r0.HarnessErr
				return r0
			}
			ops = r0.Counters["probe:target_persistence_ops"]
			opsCache[key] = ops
			multiCache[key] = r0.MultiTx
			orderCache[key] = crashOrder(r0.OpKinds)
			fstepCache[key] = r0.FileSteps
			kindsCache[key] = r0.OpKinds
		}
		if sc.Crash.Mode == "fstep" {
			// crash between the file-level steps of one operation: only operations that write files have such points
			fs := fstepCache[key]
			var cand []int
			for i, nsteps := range fs {
				if nsteps >= sc.Crash.TornPct {
					cand = append(cand, i+1)
				}
			}
			if len(cand) == 0 {
				res = RunResult{Seed: sc.Seed, Engine: "daemon", Prop: sc.Prop, Counters: map[string]int{"probe:no_operation_with_that_many_file_steps": 1},
					Summary: fmt.Sprintf("%s: no persistence operation consists of %d file-level steps", sc.Mode, sc.Crash.TornPct)}
				return
			}
			resolved := *sc
			cr := *sc.Crash
			cr.At = cand[len(cand)-1-cr.AtIndex%len(cand)] // the latest first
			resolved.Crash = &cr
			res = runDaemon1(t, &resolved, dump)
			res.Summary += fmt.Sprintf(" ops=%d at=%d mode=fstep%d", ops, cr.At, cr.TornPct)
			if res.Counters != nil {
				res.Counters[fmt.Sprintf("c13point:%s:%d/%d:fstep%d", sc.Mode, cr.At, ops, cr.TornPct)] = 1
			}
			return
		}
		if sc.Crash.Mode == "mid" {
			// crash between the write transactions of one operation: only operations made of several have such a point
			multi := multiCache[key]
			if len(multi) == 0 {
				res = RunResult{Seed: sc.Seed, Engine: "daemon", Prop: sc.Prop, Counters: map[string]int{"probe:every_operation_is_one_transaction": 1},
					Summary: fmt.Sprintf("%s: every one of the %d persistence operations is a single write transaction", sc.Mode, ops)}
				return
			}
			resolved := *sc
			cr := *sc.Crash
			cr.At = multi[cr.AtIndex%len(multi)]
			resolved.Crash = &cr
			res = runDaemon1(t, &resolved, dump)
			res.Summary += fmt.Sprintf(" ops=%d at=%d mode=mid", ops, cr.At)
			if res.Counters != nil {
				res.Counters[fmt.Sprintf("c13point:%s:%d/%d:mid", sc.Mode, cr.At, ops)] = 1
			}
			return
		}
		if ops == 0 {
			res = RunResult{Seed: sc.Seed, Engine: "daemon", Prop: sc.Prop, HarnessErr: "crash target performed no persistence operation"}
			return
		}
		resolved := *sc
		cr := *sc.Crash
		cr.At = 1 + cr.AtIndex%ops
		if ord := orderCache[key]; len(ord) == ops {
			cr.At = ord[cr.AtIndex%ops]
			if cr.Mode == "late" {
				// a stalled operation matters most where other steps of the same sequence may overtake it:
				// the records of completed epochs first (latest first), then the usual order
				kinds := kindsCache[key]
				var first, rest []int
				for _, k := range ord {
					if k-1 < len(kinds) && kinds[k-1] == "dkg.SaveFinished" {
						first = append(first, k)
					} else {
						rest = append(rest, k)
					}
				}
				// ... and a few of the chain store's puts right after them (what went out before it was stored)
				var puts, others []int
				nput := 0
				for _, k := range rest {
					if k-1 < len(kinds) && kinds[k-1] == "chain.Put" {
						nput++
					}
				}
				seen := 0
				for _, k := range rest {
					if k-1 < len(kinds) && kinds[k-1] == "chain.Put" {
						seen++
						if m := nput / 2; seen >= m && seen < m+3 { // three in the middle of the run: its clients are attached then
							puts = append(puts, k)
							continue
						}
					}
					others = append(others, k)
				}
				rest = append(puts, others...)
				lo := append(first, rest...)
				cr.At = lo[cr.AtIndex%ops]
			}
		}
		resolved.Crash = &cr
		res = runDaemon1(t, &resolved, dump)
		res.Summary += fmt.Sprintf(" ops=%d at=%d mode=%s", ops, cr.At, cr.Mode)
		if res.Counters != nil {
			res.Counters[fmt.Sprintf("c13point:%s:%d/%d:%s%d", sc.Mode, cr.At, ops, cr.Mode, cr.TornPct)] = 1
		}
		return
	}
	return runDaemon1(t, sc, dump)
}

func runDaemon1(t *testing.T, sc *DaemonScenario, dump io.Writer) (res RunResult) {
	wall := time.Now()
	res = RunResult{Seed: sc.Seed, Engine: "daemon", Prop: sc.Prop}
	dir, err := os.MkdirTemp(tmpRoot(), "zv-daemon-")
	if err != nil {
		res.HarnessErr = err.Error()
		return
	}
	defer os.RemoveAll(dir)
	rec := NewRecorder(true)
	func() {
		defer func() {
			if p := recover(); p != nil {
				res.BubblePanic = fmt.Sprint(p)
			}
		}()
		synctest.Test(t, func(t *testing.T) {
			e := &daemonEngine{sc: sc, rec: rec, dir: dir}
			e.w = NewWorld(sc.Seed, rec, sc.Net)
			e.w.BodyBlind, bodyBlind = true, true
			defer func() { bodyBlind = false }()
			e.keepIO = sc.Prop == "C15"
			if e.keepIO {
				dlog.VerifStdout = stdoutTap{e}
				defer func() { dlog.VerifStdout = nil }()
				if sc.Crash == nil {
					simrt.FileHook = e.looseHook
					defer func() { simrt.FileHook = nil }()
				}
			}
			InstallYields(sc.Yield, rec)
			defer UninstallYields()
			if sc.Crash != nil {
				bsimsync.YieldHook = e.boltHook(bsimsync.YieldHook)
				simrt.FileHook = e.fileHook
				defer func() { simrt.FileHook = nil }()
			}
			if err := e.setup(); err != nil {
				res.HarnessErr = "setup: " + err.Error()
				return
			}
			e.body(&res)
			if res.VirtualMs == 0 && !e.start.IsZero() {
				res.VirtualMs = time.Since(e.start).Milliseconds()
			}
		})
	}()
	UninstallYields()
	res.Violations = rec.Violations()
	res.Counters = rec.Counters()
	res.LogHash, res.Events = rec.LogHash()
	res.Sig = rec.Signature()
	res.WallMs = time.Since(wall).Milliseconds()
	if f, ok := dump.(*os.File); ok && f != nil {
		rec.Dump(f)
	}
	if res.BubblePanic != "" && !isLeftoverPanic(res.BubblePanic) {
		res.HarnessErr = "panic: " + res.BubblePanic
	}
	return
}

// afterJoin is called by runInitialDKG between the joins and the execution.
func (e *daemonEngine) afterJoin() {
	if f := e.sc.DKGFault; f != nil && f.Kind == "down" && f.Node > 0 && f.Node < e.sc.N {
		// a participant that joined and then goes down before the execution: it is left out of
		// the qualified set, the others complete with a hole in the index set
		e.stopDaemon(e.nodes[f.Node])
		e.rec.Count("fault:dkg_participant_down", 1)
	}
}

func (e *daemonEngine) period() time.Duration { return time.Duration(e.sc.PeriodS) * time.Second }

func (e *daemonEngine) dkgDuration() time.Duration {
	return time.Duration(e.sc.KickoffS+3*e.sc.PhaseS+2) * time.Second
}

func (e *daemonEngine) body(res *RunResult) {
	sc := e.sc
	genesis := time.Unix(e.start.Unix()+int64(sc.GenesisInS), 0)
	first := make([]int, sc.N)
	for i := range first {
		first[i] = i
	}
	for _, id := range e.beaconIDs() {
		if err := e.runInitialDKG(id, genesis); err != nil {
			if sc.Crash != nil && sc.Crash.At > 0 {
				// the key generation failed because the target died in the middle of it: what the run is
				// about is the state it restarts from, and that has been (or is being) checked
				e.rec.Count("probe:dkg_failed_because_of_the_crash", 1)
				time.Sleep(e.dkgDuration() + 5*time.Second)
				synctest.Wait()
				res.Summary = "first DKG failed because of the crash" + e.crashSummary()
				res.NonTrivial = true
				e.shutdown()
				return
			}
			res.HarnessErr = "dkg: " + err.Error()
			return
		}
	}
	time.Sleep(e.dkgDuration())
	synctest.Wait()
	if sc.DKGFault != nil {
		e.w.Heal()
	}
	for _, id := range e.beaconIDs() {
		cc := e.chains[id]
		ep := e.collectEpoch(id, first, 1, nil)
		cc.epochs = append(cc.epochs, ep)
		if (ep.group == nil || ep.master == nil || len(ep.complete) < sc.T) && sc.Crash != nil && sc.Crash.At > 0 {
			e.rec.Count("probe:dkg_failed_because_of_the_crash", 1)
			res.Summary = "first DKG incomplete because of the crash" + e.crashSummary()
			res.NonTrivial = true
			e.shutdown()
			return
		}
		if ep.group == nil || ep.master == nil || len(ep.complete) < sc.T {
			e.rec.Violate("C06", "initial-dkg-did-not-complete", "liveness", "beacon %s: %d of %d nodes completed the first DKG (threshold %d) in a fault-free network", id, len(ep.complete), sc.N, sc.T)
			res.Summary = "initial DKG incomplete"
			return
		}
		cc.chain = NewRefChain(cc.ref, ep.master, ep.group.GenesisSeed)
		e.rec.Count("probe:dkg_completed", 1)
	}
	if len(sc.DKGSteps) > 0 {
		e.runDKGSteps(res)
		e.shutdown()
		return
	}
	if sc.DKGOnly {
		res.NonTrivial = true
		e.shutdown()
		return
	}
	// timeline: script acts and reshare plans, by time
	type timed struct {
		at  time.Time
		act *Act
		rs  *ResharePlan
		fn  func()
	}
	var tl []timed
	if fp := sc.Follow; fp != nil {
		for _, l := range fp.Liars {
			e.w.Register(e.liarAddr(l), &liarEP{e: e, kind: l, addr: e.liarAddr(l)})
		}
		tl = append(tl, timed{at: e.start.Add(time.Duration(fp.AtMs) * time.Millisecond), fn: func() {
			var peers []string
			for _, p := range fp.Peers {
				peers = append(peers, e.nodes[p].addr)
			}
			for _, l := range fp.Liars {
				peers = append(peers, e.liarAddr(l))
			}
			if len(fp.Order) == len(peers) {
				o := make([]string, len(peers))
				for i, j := range fp.Order {
					o[i] = peers[j]
				}
				peers = o
			}
			go e.follow(e.nodes[fp.Node], fp.UpTo, peers, fp.WrongHash)
		}})
	}
	if cp := sc.Check; cp != nil {
		for _, l := range cp.Liars {
			e.w.Register(e.liarAddr(l), &liarEP{e: e, kind: l, addr: e.liarAddr(l)})
		}
		tl = append(tl, timed{at: e.start.Add(time.Duration(cp.AtMs) * time.Millisecond), fn: func() { go e.checkChain(e.nodes[cp.Node], cp) }})
	}
	for i := range sc.Script {
		a := &sc.Script[i]
		tl = append(tl, timed{at: e.start.Add(time.Duration(a.AtMs) * time.Millisecond), act: a})
	}
	for i := range sc.Reshares {
		p := &sc.Reshares[i]
		tl = append(tl, timed{at: genesis.Add(time.Duration(p.AtRound-1)*e.period() + 300*time.Millisecond), rs: p})
	}
	sort.SliceStable(tl, func(i, j int) bool { return tl[i].at.Before(tl[j].at) })
	var reshareDone chan struct{}
	for _, x := range tl {
		if d := time.Until(x.at); d > 0 {
			time.Sleep(d)
		}
		synctest.Wait()
		if x.fn != nil {
			x.fn()
		} else if x.act != nil {
			e.apply(*x.act)
		} else {
			// the operator drives the resharing on the side: faults and clients keep their own schedule
			prev := reshareDone
			done := make(chan struct{})
			reshareDone = done
			rs := x.rs
			go func() {
				defer close(done)
				if prev != nil {
					<-prev
				}
				e.reshare("default", rs)
			}()
		}
	}
	if d := time.Until(e.start.Add(time.Duration(sc.HealAtMs) * time.Millisecond)); d > 0 {
		time.Sleep(d)
	}
	synctest.Wait()
	e.w.Heal()
	e.w.SetFaults(false)
	healAt := time.Now()
	end := genesis.Add(time.Duration(sc.Rounds) * e.period())
	if d := time.Until(end); d > 0 {
		time.Sleep(d)
	}
	time.Sleep(e.period()/2 + 13*time.Millisecond)
	synctest.Wait()
	if reshareDone != nil {
		select {
		case <-reshareDone:
		case <-time.After(3 * time.Minute):
			e.rec.Count("probe:reshare_driver_still_busy_at_end", 1)
		}
		time.Sleep(e.period()/2 + 13*time.Millisecond)
		synctest.Wait()
	}
	res.VirtualMs = time.Since(e.start).Milliseconds()
	e.finalChecks(healAt, res)
	if sc.Follow != nil {
		fn := e.nodes[sc.Follow.Node]
		e.checkFollower(fn, sc.Follow, healAt)
		if fn.followCancel != nil {
			fn.followCancel()
		}
	}
	if sc.Crash != nil {
		n := e.nodes[sc.Crash.Node]
		e.rec.Count("probe:target_persistence_ops", n.pc.count)
		res.MultiTx = append([]int(nil), n.pc.multi...)
		res.OpKinds = append([]string(nil), n.pc.kinds...)
		res.FileSteps = append([]int(nil), n.pc.fsteps...)
		res.Summary += e.crashSummary()
		if sc.Crash.At > 0 && !n.pc.fired {
			e.rec.Count("probe:crash_point_not_reached", 1)
		}
	}
	e.shutdown()
}

func (e *daemonEngine) shutdown() {
	for _, n := range e.nodes {
		e.stopDaemon(n)
	}
	time.Sleep(15 * time.Second)
	synctest.Wait()
}

// ---------------------------------------------------------------- resharing

func (e *daemonEngine) currentMembers(id string) []int {
	cc := e.chains[id]
	return cc.epochs[len(cc.epochs)-1].members
}

func (e *daemonEngine) reshare(id string, p *ResharePlan) {
	cc := e.chains[id]
	old := cc.epochs[len(cc.epochs)-1]
	leaving := map[int]bool{}
	for _, i := range p.Leave {
		leaving[i] = true
	}
	var remaining, members []int
	for _, i := range old.members {
		if !leaving[i] {
			remaining = append(remaining, i)
		}
	}
	members = append(append(members, remaining...), p.Join...)
	if len(remaining) == 0 {
		return
	}
	var leader *dNode
	for _, i := range remaining {
		if e.nodes[i].up {
			leader = e.nodes[i]
			break
		}
	}
	if leader == nil {
		return
	}
	part := func(idx []int) []*pdkg.Participant {
		var out []*pdkg.Participant
		for _, i := range idx {
			out = append(out, e.participant(e.nodes[i], id))
		}
		return out
	}
	e.rec.Ev("reshare", leader.addr, "epoch=%d remain=%v join=%v leave=%v t=%d fail=%s", old.n+1, remaining, p.Join, p.Leave, p.NewT, p.Fail)
	e.rec.Count("fault:reshare_"+map[bool]string{true: "ok", false: p.Fail}[p.Fail == ""], 1)
	timeout := time.Now().Add(e.dkgDuration() + 6*time.Second)
	err := e.cmd(leader, id, &pdkg.DKGCommand{Command: &pdkg.DKGCommand_Resharing{Resharing: &pdkg.ProposalOptions{
		Timeout: timestamppb.New(timeout), Threshold: uint32(p.NewT), CatchupPeriodSeconds: uint32(e.sc.CatchupS),
		Joining: part(p.Join), Remaining: part(remaining), Leaving: part(p.Leave)}}})
	if err != nil {
		e.rec.Ev("reshare_proposal_failed", leader.addr, "%v", err)
		e.rec.Count("probe:reshare_proposal_failed", 1)
		return
	}
	time.Sleep(time.Second)
	synctest.Wait()
	gf := groupTOML(old.group)
	for _, i := range p.Join {
		_ = e.cmd(e.nodes[i], id, &pdkg.DKGCommand{Command: &pdkg.DKGCommand_Join{Join: &pdkg.JoinOptions{GroupFile: gf}}})
	}
	for _, i := range remaining {
		if e.nodes[i] != leader {
			_ = e.cmd(e.nodes[i], id, &pdkg.DKGCommand{Command: &pdkg.DKGCommand_Accept{Accept: &pdkg.AcceptOptions{}}})
		}
	}
	time.Sleep(time.Second)
	synctest.Wait()
	switch p.Fail {
	case "abort":
		_ = e.cmd(leader, id, &pdkg.DKGCommand{Command: &pdkg.DKGCommand_Abort{Abort: &pdkg.AbortOptions{}}})
		time.Sleep(2 * time.Second)
	case "expire":
		time.Sleep(time.Until(timeout) + 2*time.Second)
	case "exec_partition":
		// execution starts, then more than n-t of the new group are cut off until it has failed
		_ = e.cmd(leader, id, &pdkg.DKGCommand{Command: &pdkg.DKGCommand_Execute{Execute: &pdkg.ExecutionOptions{}}})
		// every participant is cut off from every other one until the attempt has failed
		var all []string
		for _, i := range members {
			all = append(all, e.nodes[i].addr)
		}
		for _, i := range p.Leave {
			all = append(all, e.nodes[i].addr)
		}
		time.Sleep(time.Duration(e.sc.KickoffS)*time.Second - 100*time.Millisecond)
		for i := range all {
			e.w.Partition(all[i:i+1], append(append([]string(nil), all[:i]...), all[i+1:]...))
		}
		time.Sleep(time.Until(timeout) + 2*time.Second)
		e.w.Heal()
		e.lastFault = time.Now()
	default:
		if d := p.DownInExec - 1; d >= 0 && d < len(e.nodes) && e.nodes[d] != leader && e.nodes[d].up {
			// a member that accepted is not there when the execution runs: the others complete without it
			e.stopDaemon(e.nodes[d])
			e.rec.Count("fault:member_down_during_execution", 1)
		}
		if err := e.cmd(leader, id, &pdkg.DKGCommand{Command: &pdkg.DKGCommand_Execute{Execute: &pdkg.ExecutionOptions{}}}); err != nil {
			e.rec.Ev("reshare_execute_failed", leader.addr, "%v", err)
			return
		}
		time.Sleep(e.dkgDuration())
	}
	synctest.Wait()
	if p.Fail != "" {
		// the old group must be untouched on every member
		for _, i := range old.members {
			bp := e.bp(e.nodes[i], id)
			if bp == nil {
				continue
			}
			if g := bp.VerifGroup(); g != nil {
				if d := groupDiff(old.group, g); d != "" {
					e.rec.Violate("C07", "failed-reshare-changed-group", strings.SplitN(d, ":", 2)[0], "after a %s reshare attempt node%d holds a different group: %s", p.Fail, i, d)
				}
			}
		}
		e.rec.Count("probe:failed_reshare_checked", 1)
		return
	}
	ep := e.collectEpoch(id, members, old.n+1, old.group)
	if ep.group == nil || ep.master == nil {
		e.rec.Count("probe:reshare_incomplete", 1)
		e.rec.Ev("reshare_incomplete", "", "completers=%d", len(ep.complete))
		return
	}
	// C07: identity of the chain is unchanged
	if !ep.master.Equal(old.master) {
		facts := "secret"
		if ep.membersDiffer {
			facts = "secret-after-members-diverged" // shares of diverged groups were interpolated together (C06 finding)
		}
		e.rec.Violate("C07", "reshare-changed-the-secret", facts, "epoch %d: the interpolated group secret differs from the previous epoch's", ep.n)
	}
	if ep.group.GenesisTime != old.group.GenesisTime || !bytes.Equal(ep.group.GenesisSeed, old.group.GenesisSeed) || ep.group.Period != old.group.Period ||
		ep.group.Scheme.Name != old.group.Scheme.Name || ep.group.ID != old.group.ID || !ep.group.PublicKey.Key().Equal(old.group.PublicKey.Key()) {
		e.rec.Violate("C07", "reshare-changed-chain-parameters", "params", "epoch %d: genesis/period/scheme/id/public key changed", ep.n)
	}
	cc.epochs = append(cc.epochs, ep)
	e.rec.Count("probe:reshare_completed", 1)
	if p.StopLeavers && len(p.Leave) > 0 {
		at := time.Unix(ep.group.TransitionTime, 0).Add(-e.period() / 2)
		leavers := append([]int(nil), p.Leave...)
		go func() {
			if d := time.Until(at); d > 0 {
				time.Sleep(d)
			}
			for _, i := range leavers {
				e.stopDaemon(e.nodes[i])
			}
			e.rec.Count("fault:leaver_shut_down_at_transition", 1)
		}()
	}
}

// ---------------------------------------------------------------- script

func (e *daemonEngine) addrs(idx []int) []string {
	var out []string
	for _, i := range idx {
		if i >= 0 && i < len(e.nodes) {
			out = append(out, e.nodes[i].addr)
		}
	}
	return out
}

func (e *daemonEngine) apply(a Act) {
	var n *dNode
	if a.Node >= 0 && a.Node < len(e.nodes) {
		n = e.nodes[a.Node]
	}
	e.rec.Ev("act", "", "%s node=%d a=%d b=%d s=%s", a.Kind, a.Node, a.A, a.B, a.S)
	switch a.Kind {
	case "partition":
		in := map[int]bool{}
		for _, i := range a.Nodes {
			in[i] = true
		}
		var rest []int
		for i := range e.nodes {
			if !in[i] {
				rest = append(rest, i)
			}
		}
		e.w.Partition(e.addrs(a.Nodes), e.addrs(rest))
	case "heal":
		e.w.Heal()
		e.w.SetFaults(false)
	case "faults_on":
		e.w.SetFaults(true)
	case "faults_off":
		e.w.SetFaults(false)
	case "slow":
		if n != nil {
			e.w.SetSlow(n.addr, time.Duration(a.A)*time.Millisecond)
		}
	case "stop":
		if n != nil {
			e.stopDaemon(n)
		}
	case "start":
		if n != nil && !n.up {
			if err := e.startDaemon(n, false); err != nil {
				e.rec.Violate("C13", "restart-failed", "graceful", "node %s did not come back after a graceful stop: %v", n.addr, err)
			}
		}
	case "jump":
		if n != nil {
			n.clock.Jump(time.Duration(a.A) * time.Millisecond)
			e.rec.Count("fault:clock_jump", 1)
		}
	case "rand":
		if n != nil {
			go e.clientRand(n, "default", a.A)
		}
	case "rand_spray":
		// requests for the round about to be produced, spread over the instants around its production
		if n != nil {
			go func() {
				id := "default"
				next := e.curRound(id) + 1
				at := time.Unix(refTimeOfRound(next, e.sc.PeriodS, e.chains[id].genesis.Unix()), 0)
				if d := time.Until(at); d > 0 {
					time.Sleep(d)
				}
				for k := 0; k < int(a.B); k++ {
					go e.clientRandRound(n, id, next)
					time.Sleep(time.Duration(a.A) * time.Microsecond)
				}
			}()
		}
	case "http":
		if n != nil {
			go e.clientHTTP(n, a.S, a.A)
		}
	case "stream":
		if n != nil {
			go e.clientStream(n, "default", uint64(a.A), int(a.B))
		}
	case "sync":
		if n != nil {
			go e.clientSync(n, "default", uint64(a.A), int(a.B))
		}
	case "info":
		if n != nil {
			go e.clientInfo(n, "default")
		}
	default:
		e.applyExtra(a, n)
	}
}

// ---------------------------------------------------------------- clients

func (e *daemonEngine) client(tag string) *SimClient {
	return &SimClient{W: e.w, Self: "client-" + tag + ".sim:1"}
}

func (e *daemonEngine) curRound(id string) uint64 {
	return refCurrentRound(time.Now().Unix(), e.sc.PeriodS, e.chains[id].genesis.Unix())
}

// clientRand: round >0 that round, 0 latest, <0 the round about to be produced.
func (e *daemonEngine) clientRand(n *dNode, id string, round int64) {
	cc := e.chains[id]
	want := uint64(0)
	req := &drand.PublicRandRequest{Metadata: &drand.Metadata{BeaconID: id}}
	if round > 0 {
		want, req.Round = uint64(round), uint64(round)
	} else if round < 0 {
		want = e.curRound(id) + 1
		req.Round = want
	}
	t0 := time.Now()
	resp, err := e.client("rand").PublicRand(context.Background(), n.pairs[id].Public, req)
	e.rec.Count("probe:publicrand_calls", 1)
	if err != nil {
		return
	}
	e.rec.Count("probe:publicrand_ok", 1)
	e.checkServed(cc, "PublicRand", n.addr, want, resp.Round, resp.PreviousSignature, resp.Signature, nil)
	_ = t0
}

func (e *daemonEngine) clientRandRound(n *dNode, id string, round uint64) {
	resp, err := e.client("spray").PublicRand(context.Background(), n.pairs[id].Public, &drand.PublicRandRequest{Round: round, Metadata: &drand.Metadata{BeaconID: id}})
	e.rec.Count("probe:publicrand_calls", 1)
	if err != nil {
		return
	}
	e.rec.Count("probe:publicrand_ok", 1)
	e.checkServed(e.chains[id], "PublicRand", n.addr, round, resp.Round, resp.PreviousSignature, resp.Signature, nil)
}

func (e *daemonEngine) clientStream(n *dNode, id string, from uint64, max int) {
	cc := e.chains[id]
	ctx, cancel := context.WithTimeout(context.Background(), time.Duration(max+3)*e.period())
	defer cancel()
	ch, err := e.client("stream").PublicRandStream(ctx, n.pairs[id].Public, &drand.PublicRandRequest{Round: from, Metadata: &drand.Metadata{BeaconID: id}})
	if err != nil {
		return
	}
	last, got := uint64(0), 0
	for r := range ch {
		got++
		e.checkServed(cc, "PublicRandStream", n.addr, 0, r.Round, r.PreviousSignature, r.Signature, r.Randomness)
		if from > 0 && got == 1 && r.Round != from {
			e.rec.Violate("C11", "stream-first-round", "daemon", "PublicRandStream from %d on %s started with round %d", from, n.addr, r.Round)
		}
		if got > 1 && r.Round != last+1 {
			e.rec.Violate("C11", "stream-not-consecutive", "daemon", "PublicRandStream from %d on %s delivered round %d after %d", from, n.addr, r.Round, last)
		}
		last = r.Round
		if got >= max {
			break
		}
	}
	e.rec.Count("probe:stream_items", got)
}

func (e *daemonEngine) clientSync(n *dNode, id string, from uint64, max int) {
	cc := e.chains[id]
	ctx, cancel := context.WithTimeout(context.Background(), time.Duration(max+3)*e.period())
	defer cancel()
	ch, err := e.client("sync").SyncChain(ctx, n.pairs[id].Public, &drand.SyncRequest{FromRound: from, Metadata: &drand.Metadata{BeaconID: id}})
	if err != nil {
		return
	}
	last, got := uint64(0), 0
	for r := range ch {
		got++
		e.checkServed(cc, "SyncChain", n.addr, 0, r.Round, r.PreviousSignature, r.Signature, nil)
		if got > 1 && r.Round != last+1 {
			e.rec.Violate("C11", "stream-not-consecutive", "daemon", "SyncChain from %d on %s delivered round %d after %d", from, n.addr, r.Round, last)
		}
		last = r.Round
		if got >= max {
			break
		}
	}
	e.rec.Count("probe:sync_items", got)
}

type httpRand struct {
	Round             uint64 `json:"round"`
	Randomness        string `json:"randomness"`
	Signature         string `json:"signature"`
	PreviousSignature string `json:"previous_signature"`
}

// clientHTTP drives the HTTP handler in-process: kind = round | latest | info | chains | health
func (e *daemonEngine) clientHTTP(n *dNode, kind string, round int64) {
	cc := e.chains["default"]
	n.mu.Lock()
	dd := n.dd
	n.mu.Unlock()
	if dd == nil {
		return
	}
	path := "/public/latest"
	want := uint64(0)
	switch kind {
	case "round":
		if round <= 0 {
			round = int64(e.curRound("default"))
		}
		if round == 0 {
			round = 1
		}
		want = uint64(round)
		path = fmt.Sprintf("/public/%d", round)
	case "next", "next_cancel":
		want = e.curRound("default") + 1
		path = fmt.Sprintf("/public/%d", want)
	case "info":
		path = "/info"
	case "chains":
		path = "/chains"
	case "health":
		path = "/health"
	}
	if cc.chain != nil && (kind == "round" || kind == "latest" || kind == "next" || kind == "next_cancel") && len(cc.epochs) > 0 && round%2 == 1 {
		// every other request goes under the chain hash prefix
		path = "/" + e.chainHashHex("default") + path
	}
	rec := httptest.NewRecorder()
	req := httptest.NewRequest("GET", path, nil)
	ctx, cancel := context.WithTimeout(context.Background(), e.period()+5*time.Second)
	if kind == "next_cancel" {
		// the client walks away while its request is parked for the round to come
		cancel()
		ctx, cancel = context.WithTimeout(context.Background(), time.Duration(50+round%400)*time.Millisecond)
		e.rec.Count("fault:http_client_gives_up", 1)
	}
	defer cancel()
	func() {
		defer func() {
			if p := recover(); p != nil {
				// net/http recovers per connection: not a process death, but a 500 at best
				e.rec.Count("probe:http_panic", 1)
				e.rec.Ev("http_panic", n.addr, "%s: %v", path, p)
			}
		}()
		dd.VerifHTTP().ServeHTTP(rec, req.WithContext(ctx))
	}()
	e.rec.Count("probe:http_calls", 1)
	if e.keepIO {
		e.wireMu.Lock()
		e.wire.Write(rec.Body.Bytes())
		e.wire.WriteByte(0)
		e.wireMu.Unlock()
	}
	if rec.Code != 200 {
		return
	}
	e.rec.Count("probe:http_200", 1)
	switch kind {
	case "round", "latest", "next", "next_cancel":
		body := rec.Body.Bytes()
		if len(bytes.TrimSpace(body)) == 0 {
			e.rec.Violate("C01", "http-200-with-empty-body", "http", "GET %s on %s answered 200 with an empty body", path, n.addr)
			return
		}
		var hr httpRand
		if err := json.Unmarshal(body, &hr); err != nil {
			e.rec.Violate("C01", "http-200-unparsable", "http", "GET %s on %s: %v", path, n.addr, err)
			return
		}
		sig, _ := hex.DecodeString(hr.Signature)
		prev, _ := hex.DecodeString(hr.PreviousSignature)
		rnd, _ := hex.DecodeString(hr.Randomness)
		e.checkServed(cc, "HTTP", n.addr, want, hr.Round, prev, sig, rnd)
	case "info":
		e.checkInfoJSON(n, rec.Body.Bytes())
	}
}

func (e *daemonEngine) chainHashHex(id string) string {
	cc := e.chains[id]
	if len(cc.epochs) == 0 || cc.epochs[0].group == nil {
		return "00"
	}
	return hex.EncodeToString(chainHashOf(cc.epochs[0].group))
}

// identity string of a chain as a pinned client sees it
func infoIdentity(pk []byte, period uint32, genesis int64, hash, groupHash []byte, scheme, id string) string {
	return fmt.Sprintf("pk=%x period=%d genesis=%d hash=%x seed=%x scheme=%s id=%s", pk, period, genesis, hash, groupHash, scheme, id)
}

func (e *daemonEngine) clientInfo(n *dNode, id string) {
	cc := e.chains[id]
	resp, err := e.client("info").ChainInfo(context.Background(), n.pairs[id].Public, &drand.ChainInfoRequest{Metadata: &drand.Metadata{BeaconID: id}})
	if err != nil {
		return
	}
	e.rec.Count("probe:chaininfo_ok", 1)
	ident := infoIdentity(resp.PublicKey, resp.Period, resp.GenesisTime, resp.Hash, resp.GroupHash, resp.SchemeID, resp.GetMetadata().GetBeaconID())
	e.checkIdentity(cc, n, "ChainInfo", ident)
}

func (e *daemonEngine) checkIdentity(cc *chainCtx, n *dNode, where, ident string) {
	if cc.infoRef == "" {
		cc.infoRef = ident
		return
	}
	if cc.infoRef != ident {
		e.rec.Violate("C07", "chain-identity-changed", where, "%s on %s: %s, first seen: %s", where, n.addr, ident, cc.infoRef)
	}
}

func (e *daemonEngine) checkInfoJSON(n *dNode, body []byte) {
	var m struct {
		PublicKey   string `json:"public_key"`
		Period      uint32 `json:"period"`
		GenesisTime int64  `json:"genesis_time"`
		Hash        string `json:"hash"`
		GroupHash   string `json:"groupHash"`
		SchemeID    string `json:"schemeID"`
		Metadata    struct {
			BeaconID string `json:"beaconID"`
		} `json:"metadata"`
	}
	if err := json.Unmarshal(body, &m); err != nil {
		return
	}
	pk, _ := hex.DecodeString(m.PublicKey)
	h, _ := hex.DecodeString(m.Hash)
	gh, _ := hex.DecodeString(m.GroupHash)
	e.checkIdentity(e.chains["default"], n, "HTTP /info", infoIdentity(pk, m.Period, m.GenesisTime, h, gh, m.SchemeID, m.Metadata.BeaconID))
}

// ---------------------------------------------------------------- final checks

func (e *daemonEngine) finalChecks(healAt time.Time, res *RunResult) {
	sc := e.sc
	if e.lastFault.After(healAt) {
		healAt = e.lastFault
	}
	id := "default"
	cc := e.chains[id]
	members := e.currentMembers(id)
	cur := cc.epochs[len(cc.epochs)-1]
	// if the last epoch has not reached its transition time yet, the previous group is the one producing
	if cur.group.TransitionTime > time.Now().Unix() && len(cc.epochs) > 1 {
		members = cc.epochs[len(cc.epochs)-2].members
		cur = cc.epochs[len(cc.epochs)-2]
	}
	due := e.curRound(id)
	type held struct{ sig, prev []byte }
	all := map[uint64]map[string]held{}
	heads := map[int]uint64{}
	live, holders := 0, 0 // holders: live members that hold the producing epoch's group and share
	for _, i := range members {
		n := e.nodes[i]
		bp := e.bp(n, id)
		if bp == nil || n.dead {
			continue
		}
		h := bp.VerifHandler()
		if h == nil {
			continue
		}
		live++
		if g := bp.VerifGroup(); g != nil && groupDiff(cur.group, g) == "" {
			holders++
		}
		ctx := context.Background()
		if cc.sch.Name == crypto.DefaultSchemeID {
			ctx = chain.SetPreviousRequiredOnContext(ctx)
		}
		var rounds []uint64
		_ = h.Store().Cursor(ctx, func(ctx context.Context, c chain.Cursor) error {
			for b, err := c.First(ctx); b != nil && err == nil; b, err = c.Next(ctx) {
				rounds = append(rounds, b.Round)
				if all[b.Round] == nil {
					all[b.Round] = map[string]held{}
				}
				all[b.Round][n.addr] = held{append([]byte(nil), b.Signature...), append([]byte(nil), b.PreviousSig...)}
				if b.Round >= 1 {
					if msg := cc.chain.CheckBeacon(b.Round, prevFor(cc, b.Round, b.PreviousSig), b.Signature); msg != "" {
						e.rec.Violate("C01", "stored-beacon-not-on-chain", "scan", "node %s: %s", n.addr, msg)
					}
				}
			}
			return nil
		})
		if sc.Backend == "memdb" && len(rounds) > 1 && rounds[0] == 0 && rounds[1] != 1 {
			rounds = rounds[1:]
		}
		for k := 1; k < len(rounds); k++ {
			if rounds[k] != rounds[k-1]+1 {
				e.rec.Violate("C02", "gap-in-stored-chain", "scan", "node %s: round %d follows %d in the store", n.addr, rounds[k], rounds[k-1])
				break
			}
		}
		if len(rounds) > 0 {
			heads[i] = rounds[len(rounds)-1]
			if sc.Backend != "memdb" && rounds[0] != 0 {
				e.rec.Violate("C02", "chain-does-not-start-at-0", "scan", "node %s: first stored round is %d", n.addr, rounds[0])
			}
		}
	}
	for r, m := range all {
		var ref *held
		var who string
		for a, h := range m {
			h := h
			if ref == nil {
				ref, who = &h, a
			} else if !bytes.Equal(ref.sig, h.sig) {
				e.rec.Violate("C02", "nodes-disagree", "fork", "round %d differs between %s and %s", r, who, a)
			}
		}
	}
	// liveness of the producing group after the healed phase
	bound := 6*e.period() + time.Duration(sc.CatchupS)*time.Second*time.Duration(sc.Rounds)/2
	minHead := uint64(1 << 62)
	for _, h := range heads {
		if h < minHead {
			minHead = h
		}
	}
	if len(heads) == 0 {
		minHead = 0
	}
	if holders < cur.group.Threshold && live >= cur.group.Threshold {
		// a key generation that completed on some members only (messages lost beyond the
		// protocol's retries) leaves fewer than a threshold on one share set: outside the statement
		e.rec.Count("probe:halted_by_partially_completed_reshare", 1)
	}
	if holders >= cur.group.Threshold && time.Since(healAt) >= bound {
		prop := "C05"
		if len(sc.Reshares) > 0 {
			prop = "C07"
		}
		// do the members agree on when the last transition is (was)?
		facts := "behind"
		tts := map[int64]bool{}
		for _, i := range members {
			if bp := e.bp(e.nodes[i], id); bp != nil {
				if g := bp.VerifGroup(); g != nil {
					tts[g.TransitionTime] = true
				}
			}
		}
		for _, ep := range cc.epochs {
			if ep.ttDiffer {
				tts[-1] = true
			}
		}
		if len(tts) > 1 {
			facts = "members-hold-different-transition-times"
		}
		for _, ep := range cc.epochs {
			if ep.membersDiffer {
				facts = "members-hold-groups-with-different-member-sets"
			}
		}
		for i, h := range heads {
			if time.Since(e.nodes[i].since) < bound {
				continue
			}
			if h+1 < due {
				e.rec.Violate(prop, "chain-not-at-due-round", facts, "node%d has head %d, due round %d, %s after the last fault (live members %d, threshold %d, epochs %d)", i, h, due, time.Since(healAt), live, cur.group.Threshold, len(cc.epochs))
			}
		}
		e.rec.Count("probe:liveness_checked", 1)
	}
	res.Summary = fmt.Sprintf("due=%d live=%d minhead=%d epochs=%d served=%d", due, live, minHead, len(cc.epochs), e.served)
	res.NonTrivial = minHead >= 3
	e.finalExtra(res)
}
