package zverif

// E-store: one real chain.Store (trimmed bolt, untrimmed bolt, memdb) driven by
// simulated clients against a sorted-map reference model (C18).

import (
	"bytes"
	"context"
	"encoding/binary"
	"fmt"
	"io"
	"os"
	"sort"
	"testing"
	"testing/synctest"
	"time"

	"github.com/drand/drand/v2/common"
	dlog "github.com/drand/drand/v2/common/log"
	"github.com/drand/drand/v2/internal/chain"
	"github.com/drand/drand/v2/internal/chain/boltdb"
	"github.com/drand/drand/v2/internal/chain/memdb"
)

type StoreOp struct {
	K string `json:"k"`           // put get last del len open first next seek clast close reopen
	C int    `json:"c,omitempty"` // cursor client
	R uint64 `json:"r,omitempty"`
}

type StoreScenario struct {
	Engine  string    `json:"engine"`
	Prop    string    `json:"prop"`
	Seed    uint64    `json:"seed"`
	Backend string    `json:"backend"`
	Prev    bool      `json:"requires_prev"`
	MemSize int       `json:"mem_size,omitempty"`
	Ops     []StoreOp `json:"ops"`
}

type pair struct {
	sig, prev []byte
}

type storeModel struct {
	mem     bool
	size    int
	m       map[uint64]pair
	hist    map[uint64][][]byte // every signature ever put per round
	version int
}

func (m *storeModel) rounds() []uint64 {
	rs := make([]uint64, 0, len(m.m))
	for r := range m.m {
		rs = append(rs, r)
	}
	sort.Slice(rs, func(i, j int) bool { return rs[i] < rs[j] })
	return rs
}

func (m *storeModel) put(r uint64, p pair) {
	m.hist[r] = append(m.hist[r], p.sig)
	m.version++
	if m.mem {
		if _, ok := m.m[r]; ok {
			return // the ring keeps the old value
		}
		m.m[r] = p
		for len(m.m) > m.size {
			delete(m.m, m.rounds()[0])
		}
		return
	}
	m.m[r] = p
}

func (m *storeModel) everSig(r uint64, sig []byte) bool {
	for _, s := range m.hist[r] {
		if bytes.Equal(s, sig) {
			return true
		}
	}
	return false
}

type curSession struct {
	cmd     chan StoreOp
	res     chan curRes
	done    chan error
	openVer int
	lastVer int
	last    *uint64
}

type curRes struct {
	b   *common.Beacon
	err error
}

func mkSig(seed uint64, n int, r uint64) []byte {
	b := make([]byte, 48)
	binary.BigEndian.PutUint64(b, H64(seed, "sig", n))
	binary.BigEndian.PutUint64(b[8:], uint64(n))
	binary.BigEndian.PutUint64(b[16:], r)
	return b
}

func RunStore(t *testing.T, sc *StoreScenario, dump io.Writer) (res RunResult) {
	wall := time.Now()
	res = RunResult{Seed: sc.Seed, Engine: "store", Prop: sc.Prop}
	dir, err := os.MkdirTemp(tmpRoot(), "zv-store-")
	if err != nil {
		res.HarnessErr = err.Error()
		return
	}
	defer os.RemoveAll(dir)
	rec := NewRecorder(true)
	func() {
		defer func() {
			if p := recover(); p != nil {
				res.BubblePanic = fmt.Sprint(p)
			}
		}()
		synctest.Test(t, func(t *testing.T) {
			runStoreBody(sc, dir, rec, &res)
		})
	}()
	res.Violations = rec.Violations()
	res.Counters = rec.Counters()
	res.LogHash, res.Events = rec.LogHash()
	res.Sig = rec.Signature()
	res.WallMs = time.Since(wall).Milliseconds()
	if f, ok := dump.(*os.File); ok && f != nil {
		rec.Dump(f)
	}
	if res.BubblePanic != "" && !isLeftoverPanic(res.BubblePanic) {
		res.HarnessErr = "panic: " + res.BubblePanic
	}
	cn := res.Counters
	res.NonTrivial = cn["op:put"] >= 3 && (cn["op:seek"]+cn["op:next"]+cn["op:get"]) >= 3
	return
}

func runStoreBody(sc *StoreScenario, dir string, rec *Recorder, res *RunResult) {
	lg, _ := NewNodeLogger(rec, "store", dlog.ErrorLevel+1, false, nil, nil)
	ctx := context.Background()
	if sc.Prev {
		ctx = chain.SetPreviousRequiredOnContext(ctx)
	}
	open := func() (chain.Store, error) {
		switch sc.Backend {
		case "memdb":
			return memdb.NewStore(sc.MemSize), nil
		case "bolt":
			return boltdb.NewBoltStore(boltdb.IsATest(ctx), lg, dir)
		default:
			return boltdb.NewBoltStore(ctx, lg, dir)
		}
	}
	st, err := open()
	if err != nil {
		res.HarnessErr = "open: " + err.Error()
		return
	}
	trimmed := sc.Backend == "bolt-trimmed"
	model := &storeModel{mem: sc.Backend == "memdb", size: sc.MemSize, m: map[uint64]pair{}, hist: map[uint64][][]byte{}}
	sessions := map[int]*curSession{}
	nput := 0
	viol := func(oracle, facts, f string, a ...any) {
		rec.Violate("C18", oracle, facts, "[%s prev=%v] "+f, append([]any{sc.Backend, sc.Prev}, a...)...)
	}
	// checkRead validates one beacon returned for (claimed) round against the model
	// when the model is known to be current (exact) or only against history.
	checkLabel := func(where string, b *common.Beacon) {
		if b == nil {
			return
		}
		if !model.everSig(b.Round, b.Signature) {
			viol("mislabelled-beacon", where, "%s returned round %d carrying a signature that was never put for that round", where, b.Round)
			return
		}
		if trimmed && sc.Prev && b.Round > 0 && len(b.PreviousSig) > 0 && !model.everSig(b.Round-1, b.PreviousSig) {
			viol("bad-reconstructed-prev", where, "%s returned round %d with a previous signature that was never the signature of round %d", where, b.Round, b.Round-1)
		}
	}
	expectPrev := func(r uint64) (want []byte, mustFail bool) {
		if !(trimmed && sc.Prev) || r == 0 {
			return nil, false
		}
		p, ok := model.m[r-1]
		if !ok {
			return nil, true
		}
		return p.sig, false
	}
	checkExact := func(where string, b *common.Beacon, err error, want *uint64) {
		if want == nil {
			if err == nil && b != nil {
				viol("read-of-absent-round", where, "%s returned round %d, expected nothing", where, b.Round)
			}
			return
		}
		p := model.m[*want]
		wprev, mustFail := expectPrev(*want)
		if mustFail {
			if err == nil {
				viol("prev-missing-but-read-ok", where, "%s returned round %d although round %d (needed for its previous signature) is absent", where, *want, *want-1)
			}
			return
		}
		if err != nil || b == nil {
			viol("stored-round-not-returned", where, "%s failed for stored round %d: %v", where, *want, err)
			return
		}
		if b.Round != *want {
			viol("wrong-round-returned", where, "%s returned round %d, expected %d", where, b.Round, *want)
			return
		}
		if !bytes.Equal(b.Signature, p.sig) {
			viol("wrong-signature-returned", where, "%s returned round %d with another signature than the one stored", where, b.Round)
		}
		if trimmed && sc.Prev && *want > 0 && !bytes.Equal(b.PreviousSig, wprev) {
			viol("bad-reconstructed-prev", where, "%s returned round %d with previous signature != stored signature of round %d", where, b.Round, *want-1)
		}
		if !trimmed && !bytes.Equal(b.PreviousSig, p.prev) {
			viol("wrong-prev-returned", where, "%s returned round %d with another previous signature than the one stored", where, b.Round)
		}
	}
	succ := func(after *uint64) *uint64 {
		for _, r := range model.rounds() {
			if after == nil || r > *after {
				r := r
				return &r
			}
		}
		return nil
	}
	geq := func(x uint64) *uint64 {
		for _, r := range model.rounds() {
			if r >= x {
				r := r
				return &r
			}
		}
		return nil
	}
	type pend struct {
		op   StoreOp
		p    pair
		done chan error
	}
	var pending []*pend
	settle := func() {
		synctest.Wait()
		keep := pending[:0]
		for _, p := range pending {
			select {
			case err := <-p.done:
				if err != nil {
					viol("mutation-failed", p.op.K, "%s(%d) failed: %v", p.op.K, p.op.R, err)
					continue
				}
				if p.op.K == "put" {
					model.put(p.op.R, p.p)
				} else {
					delete(model.m, p.op.R)
					model.version++
				}
			default:
				keep = append(keep, p)
				rec.Count("probe:mutation_blocked_by_open_cursor", 1)
			}
		}
		pending = keep
	}
	for _, op := range sc.Ops {
		rec.Ev("op", fmt.Sprint(op.C), "%s r=%d", op.K, op.R)
		rec.Count("op:"+op.K, 1)
		switch op.K {
		case "put", "del":
			if len(pending) > 0 {
				continue // one in-flight mutation at a time keeps the model simple
			}
			p := &pend{op: op, done: make(chan error, 1)}
			if op.K == "put" {
				nput++
				p.p = pair{sig: mkSig(sc.Seed, nput, op.R), prev: mkSig(sc.Seed, nput+1_000_000, op.R)}
				if trimmed {
					p.p.prev = nil
				}
				b := &common.Beacon{Round: op.R, Signature: append([]byte(nil), p.p.sig...), PreviousSig: append([]byte(nil), p.p.prev...)}
				go func() { p.done <- st.Put(ctx, b) }()
			} else {
				go func() { p.done <- st.Del(ctx, op.R) }()
			}
			pending = append(pending, p)
			settle()
		case "get":
			if len(pending) > 0 {
				continue
			}
			b, err := st.Get(ctx, op.R)
			var want *uint64
			if _, ok := model.m[op.R]; ok {
				want = &op.R
			}
			checkExact("Get", b, err, want)
		case "last":
			if len(pending) > 0 {
				continue
			}
			b, err := st.Last(ctx)
			rs := model.rounds()
			var want *uint64
			if len(rs) > 0 {
				want = &rs[len(rs)-1]
			}
			checkExact("Last", b, err, want)
		case "len":
			if len(pending) > 0 {
				continue
			}
			n, err := st.Len(ctx)
			if err != nil || n != len(model.m) {
				viol("wrong-length", "len", "Len returned %d (%v), model holds %d", n, err, len(model.m))
			}
		case "open":
			if sessions[op.C] != nil || len(pending) > 0 {
				continue // a blocked writer also blocks new read transactions
			}
			s := &curSession{cmd: make(chan StoreOp), res: make(chan curRes), done: make(chan error, 1), openVer: model.version, lastVer: model.version}
			sessions[op.C] = s
			go func() {
				s.done <- st.Cursor(ctx, func(ctx context.Context, c chain.Cursor) error {
					for o := range s.cmd {
						var b *common.Beacon
						var err error
						switch o.K {
						case "first":
							b, err = c.First(ctx)
						case "next":
							b, err = c.Next(ctx)
						case "seek":
							b, err = c.Seek(ctx, o.R)
						case "clast":
							b, err = c.Last(ctx)
						}
						if b != nil {
							cp := *b
							cp.Signature = append([]byte(nil), b.Signature...)
							cp.PreviousSig = append([]byte(nil), b.PreviousSig...)
							b = &cp
						}
						s.res <- curRes{b, err}
					}
					return nil
				})
			}()
			synctest.Wait()
		case "first", "next", "seek", "clast":
			s := sessions[op.C]
			if s == nil {
				continue
			}
			if op.K == "next" && s.last == nil {
				continue // Next before any positioning is not defined by the interface
			}
			s.cmd <- op
			r := <-s.res
			checkLabel("Cursor."+op.K, r.b)
			// exact expectations only when the view cannot have changed
			stable := s.openVer == model.version && len(pending) == 0
			if model.mem {
				stable = s.lastVer == model.version && len(pending) == 0
			}
			if stable {
				switch op.K {
				case "first":
					checkExact("Cursor.First", r.b, r.err, succ(nil))
				case "clast":
					rs := model.rounds()
					var want *uint64
					if len(rs) > 0 {
						want = &rs[len(rs)-1]
					}
					checkExact("Cursor.Last", r.b, r.err, want)
				case "next":
					checkExact("Cursor.Next", r.b, r.err, succ(s.last))
				case "seek":
					if _, ok := model.m[op.R]; ok {
						checkExact("Cursor.Seek(stored)", r.b, r.err, &op.R)
					} else if r.err == nil && r.b != nil {
						// an absent round may fail, or return the next stored round - correctly labelled
						if g := geq(op.R); g == nil || r.b.Round != *g {
							viol("seek-absent-wrong-round", "seek", "Seek(%d) of an absent round returned a beacon labelled %d; next stored round is %v", op.R, r.b.Round, fmtp(g))
						} else {
							checkExact("Cursor.Seek(absent)", r.b, r.err, g)
						}
					}
				}
			} else if op.K == "next" && r.b != nil && s.last != nil && r.b.Round <= *s.last {
				viol("iteration-not-ascending", "next", "Next returned round %d after round %d", r.b.Round, *s.last)
			}
			if r.b != nil {
				x := r.b.Round
				s.last = &x
			} else if op.K != "next" {
				s.last = nil
			} else if w := succ(s.last); stable && w != nil {
				// a step that failed because the previous signature of the round it reached cannot be
				// rebuilt has moved the cursor onto that round all the same
				if _, mustFail := expectPrev(*w); mustFail {
					s.last = w
				}
			}
			s.lastVer = model.version
		case "close":
			if s := sessions[op.C]; s != nil {
				close(s.cmd)
				<-s.done
				delete(sessions, op.C)
				settle()
			}
		case "reopen":
			if len(sessions) > 0 || len(pending) > 0 || model.mem {
				continue
			}
			if err := st.Close(); err != nil {
				viol("close-failed", "reopen", "Close: %v", err)
			}
			st, err = open()
			if err != nil {
				viol("reopen-failed", "reopen", "reopen: %v", err)
				return
			}
			rec.Count("fault:reopen", 1)
		}
	}
	for c, s := range sessions {
		close(s.cmd)
		<-s.done
		delete(sessions, c)
	}
	settle()
	if len(pending) > 0 {
		viol("mutation-never-completed", "end", "%s(%d) still blocked with no cursor open", pending[0].op.K, pending[0].op.R)
	}
	// final full scan equals the model
	var got []uint64
	_ = st.Cursor(ctx, func(ctx context.Context, c chain.Cursor) error {
		for b, err := c.First(ctx); b != nil && err == nil; b, err = c.Next(ctx) {
			got = append(got, b.Round)
			checkLabel("final scan", b)
		}
		return nil
	})
	want := model.rounds()
	if !(trimmed && sc.Prev) && fmt.Sprint(got) != fmt.Sprint(want) {
		viol("final-scan-differs", "scan", "final scan %v, model %v", got, want)
	}
	_ = st.Close()
}

func fmtp(p *uint64) string {
	if p == nil {
		return "none"
	}
	return fmt.Sprint(*p)
}

// GenStore draws an operation history over a small round alphabet (biased to
// holes and re-puts) or the full range.
func GenStore(prop string, seed uint64, tier string) *StoreScenario {
	r := NewRng(seed ^ 0x5707e)
	sc := &StoreScenario{Engine: "store", Prop: prop, Seed: seed}
	sc.Backend = r.Pick("bolt-trimmed", "bolt-trimmed", "bolt", "memdb")
	sc.Prev = r.Bool(50)
	sc.MemSize = r.Range(10, 14)
	n := r.Range(8, 40)
	if tier == "thorough" {
		n = r.Range(8, 120)
	}
	wide := r.Bool(15)
	rnd := func() uint64 {
		if wide {
			switch r.Intn(4) {
			case 0:
				return r.U64()
			case 1:
				return uint64(r.Intn(1 << 20))
			}
		}
		return uint64(r.Intn(13))
	}
	// start with a run of consecutive rounds most of the time
	if r.Bool(70) {
		k := r.Range(2, 9)
		base := uint64(r.Intn(3))
		for i := 0; i < k; i++ {
			sc.Ops = append(sc.Ops, StoreOp{K: "put", R: base + uint64(i)})
		}
	}
	open := map[int]bool{}
	for i := 0; i < n; i++ {
		c := r.Intn(2)
		switch x := r.Intn(100); {
		case x < 22:
			sc.Ops = append(sc.Ops, StoreOp{K: "put", R: rnd()})
		case x < 30:
			sc.Ops = append(sc.Ops, StoreOp{K: "del", R: rnd()})
		case x < 42:
			sc.Ops = append(sc.Ops, StoreOp{K: "get", R: rnd()})
		case x < 48:
			sc.Ops = append(sc.Ops, StoreOp{K: "last"})
		case x < 52:
			sc.Ops = append(sc.Ops, StoreOp{K: "len"})
		case x < 60:
			if !open[c] {
				open[c] = true
				sc.Ops = append(sc.Ops, StoreOp{K: "open", C: c})
				sc.Ops = append(sc.Ops, StoreOp{K: r.Pick("first", "seek", "seek", "clast"), C: c, R: rnd()})
			}
		case x < 84:
			if open[c] {
				sc.Ops = append(sc.Ops, StoreOp{K: r.Pick("first", "next", "next", "next", "seek", "seek", "clast"), C: c, R: rnd()})
			}
		case x < 92:
			if open[c] {
				open[c] = false
				sc.Ops = append(sc.Ops, StoreOp{K: "close", C: c})
			}
		default:
			sc.Ops = append(sc.Ops, StoreOp{K: "reopen"})
		}
	}
	return sc
}

func ShrinkStore(sc *StoreScenario) []*StoreScenario {
	var out []*StoreScenario
	n := len(sc.Ops)
	cut := func(i, j int) {
		c := *sc
		c.Ops = append(append([]StoreOp(nil), sc.Ops[:i]...), sc.Ops[j:]...)
		out = append(out, &c)
	}
	if n > 4 {
		cut(n/2, n)
		cut(0, n/2)
	}
	for i := 0; i < n; i++ {
		cut(i, i+1)
	}
	return out
}
