package zverif

// C13: crash at every persistence operation of a node (before / after / torn
// file), restart from a copy of its directory taken at that point.

import (
	"bytes"
	"context"
	"encoding/hex"
	"fmt"
	"io"
	"os"
	"path/filepath"
	"runtime"
	"strings"
	"sync/atomic"
	"time"

	"github.com/drand/drand/v2/common"
	"github.com/drand/drand/v2/common/key"
	"github.com/drand/drand/v2/internal/chain"
	"github.com/drand/drand/v2/internal/core"
	"github.com/drand/drand/v2/internal/dkg"
	dnet "github.com/drand/drand/v2/internal/net"
	simsync "github.com/drand/drand/v2/zsimsync"
)

type CrashPlan struct {
	Node     int    `json:"node"`
	At       int    `json:"at"`        // 1-based number of the persistence operation; 0: count only
	AtIndex  int    `json:"at_index"`  // used when At is 0 after counting: At = 1 + AtIndex % ops
	Mode     string `json:"mode"`      // before | after | torn
	TornPct  int    `json:"torn_pct"`  // cut of the written file, percent of its length (torn)
	DownMs   int64  `json:"down_ms"`   // downtime before the restart
	FromKind string `json:"from_kind"` // only count operations from the first one of this kind on ("" all)
}

type persistCtl struct {
	mu    simsync.Mutex
	count int
	fired bool
	kinds []string
	// write transactions the database layer begins inside the operation in progress
	opGoid int64
	opFile int   // file-level steps completed inside the operation in progress
	fsteps []int // per operation: how many file-level steps it consisted of
	opTx   int
	opKind string
	multi  []int // operations that were made of more than one write transaction
}

// inOp is the node whose persistence operation is executing (crash target only).
var inOp atomic.Pointer[dNode]

func curGoid() int64 {
	var buf [64]byte
	b := buf[:runtime.Stack(buf[:], false)]
	// "goroutine 123 ["
	b = b[len("goroutine "):]
	var id int64
	for _, c := range b {
		if c < '0' || c > '9' {
			break
		}
		id = id*10 + int64(c-'0')
	}
	return id
}

func inBeginRWTx() bool {
	var pcs [12]uintptr
	k := runtime.Callers(3, pcs[:])
	fr := runtime.CallersFrames(pcs[:k])
	for {
		f, more := fr.Next()
		if strings.HasSuffix(f.Function, "bbolt.(*DB).beginRWTx") {
			return true
		}
		if !more {
			return false
		}
	}
}

// firstLockOfTx: beginRWTx takes the writer lock first and the meta lock second; the site of
// the first acquisition ever seen inside it is the writer lock.
func (e *daemonEngine) firstLockOfTx(site string) bool {
	if e.rwSite == "" {
		e.rwSite = site
	}
	return e.rwSite == site
}

// fileHook is called at the file-level steps of the code that writes key, group and share
// files (overlay rule R7). In mode "torn" the node dies inside the operation: right after the
// file was emptied (0 %), or after a write that put only part of the bytes on disk.
func (e *daemonEngine) fileHook(op, path string, nbytes int, trunc bool) int {
	n := inOp.Load()
	if n == nil || n.pc.opGoid != curGoid() {
		return -1
	}
	pc := &n.pc
	e.rec.Count("probe:file_steps_inside_operations", 1)
	cp := e.sc.Crash
	if op != "write" && op != "torn" {
		pc.opFile++ // a completed file-level step of this operation
	}
	if cp != nil && cp.Mode == "fstep" && cp.At == pc.count && !pc.fired && op != "write" && op != "torn" && pc.opFile == cp.TornPct {
		// the node dies right after this step (file created / content written / old file removed / renamed)
		pc.fired = true
		inOp.Store(nil)
		e.crashKind = fmt.Sprintf("after file step %d (%s) of %s", pc.opFile, op, pc.opKind)
		e.rec.Count("fault:crash_between_file_steps", 1)
		e.rec.Ev("fstep", n.addr, "%s %s", op, filepath.Base(path))
		e.snapshot(n, "", 0)
		pc.mu.Unlock()
		e.crashNode(n)
		select {}
	}
	if cp == nil || cp.Mode != "torn" || cp.At != pc.count || pc.fired {
		return -1
	}
	die := false
	switch op {
	case "create", "open":
		die = trunc && cp.TornPct == 0
	case "write":
		if cp.TornPct > 0 {
			return nbytes * cp.TornPct / 100
		}
	case "torn":
		die = true
	}
	if !die {
		return -1
	}
	pc.fired = true
	inOp.Store(nil)
	e.crashKind = "torn " + pc.opKind
	e.rec.Count("fault:torn_file", 1)
	e.rec.Ev("torn", n.addr, "%s %s at %d%%", op, filepath.Base(path), cp.TornPct)
	e.snapshot(n, "", 0)
	pc.mu.Unlock()
	e.crashNode(n)
	select {}
}

// boltHook is called at every lock acquisition inside the database layer. Inside a
// persistence operation of the crash target it counts the write transactions the operation
// is made of and, in mode "mid", kills the node before the second one.
func (e *daemonEngine) boltHook(next func(string)) func(string) {
	return func(site string) {
		if n := inOp.Load(); n != nil && n.pc.opGoid == curGoid() && inBeginRWTx() && e.firstLockOfTx(site) {
			pc := &n.pc
			pc.opTx++
			cp := e.sc.Crash
			if cp != nil && cp.Mode == "mid" && cp.At == pc.count && pc.opTx == 2 && !pc.fired {
				pc.fired = true
				inOp.Store(nil)
				e.crashKind = "mid " + pc.opKind
				e.rec.Count("fault:crash_between_transactions", 1)
				e.snapshot(n, "", 0)
				pc.mu.Unlock()
				e.crashNode(n)
				select {}
			}
		}
		if next != nil {
			next(site)
		}
	}
}

func (e *daemonEngine) nodeOfFolder(folder string) *dNode {
	for _, n := range e.nodes {
		if strings.HasPrefix(folder, n.dir+string(filepath.Separator)) || folder == n.dir {
			return n
		}
	}
	return nil
}

// persist runs one persistence operation of node n under the node's persistence
// lock, numbers it, and executes the crash plan when its turn has come.
func (n *dNode) persist(kind, file string, do func() error) error {
	e := n.e
	pc := &n.pc
	pc.mu.Lock()
	if n.gen != 1 || n.zombie {
		// only the first incarnation is numbered; a zombie's writes go to the directory nobody reads
		pc.mu.Unlock()
		return do()
	}
	pc.count++
	k := pc.count
	pc.kinds = append(pc.kinds, kind)
	e.rec.Ev("persist", n.addr, "#%d %s", k, kind)
	cp := e.sc.Crash
	hit := cp != nil && cp.Node == n.idx && cp.At == k && !pc.fired
	if hit && cp.Mode == "late" {
		// a slow disk: the operation is held up for a while before it takes effect, whatever else the node
		// does meanwhile happens first, and the node dies before the operation is performed
		pc.fired = true
		e.rec.Count("fault:stalled_operation", 1)
		pc.mu.Unlock()
		time.Sleep(300 * time.Millisecond)
		pc.mu.Lock()
		e.crashKind = "late " + kind
		e.snapshot(n, "", 0)
		pc.mu.Unlock()
		e.crashNode(n)
		select {}
	}
	if hit && cp.Mode == "before" {
		pc.fired = true
		e.crashKind = "before " + kind
		e.snapshot(n, "", 0)
		pc.mu.Unlock()
		e.crashNode(n)
		select {}
	}
	track := cp != nil && cp.Node == n.idx
	if track {
		pc.opGoid, pc.opTx, pc.opKind, pc.opFile = curGoid(), 0, kind, 0
		inOp.Store(n)
	}
	err := do()
	if track {
		inOp.Store(nil)
		if pc.opTx > 1 {
			pc.multi = append(pc.multi, k)
		}
		pc.fsteps = append(pc.fsteps, pc.opFile)
	}
	if hit && cp.Mode != "mid" && cp.Mode != "fstep" {
		pc.fired = true
		e.crashKind = cp.Mode + " " + kind
		if cp.Mode == "torn" && file != "" {
			// the operation wrote its file without passing a file-level crash point (fileHook)
			e.rec.Count("probe:torn_point_not_reached", 1)
		}
		{
			e.snapshot(n, "", 0)
		}
		pc.mu.Unlock()
		e.crashNode(n)
		select {}
	}
	pc.mu.Unlock()
	return err
}

// snapshot copies the node's directory (a point-in-time image: the persistence lock is held);
// tornFile, if set, is cut to pct percent of its length in the copy.
func (e *daemonEngine) snapshot(n *dNode, tornFile string, pct int) {
	dst := n.dir + ".snap"
	_ = os.RemoveAll(dst)
	_ = filepath.Walk(n.dir, func(p string, fi os.FileInfo, err error) error {
		if err != nil {
			return nil
		}
		rel, _ := filepath.Rel(n.dir, p)
		if fi.IsDir() {
			return os.MkdirAll(filepath.Join(dst, rel), fi.Mode().Perm()|0o700)
		}
		in, err := os.Open(p)
		if err != nil {
			return nil
		}
		defer in.Close()
		out, err := os.OpenFile(filepath.Join(dst, rel), os.O_CREATE|os.O_WRONLY|os.O_TRUNC, fi.Mode().Perm())
		if err != nil {
			return nil
		}
		defer out.Close()
		if p == tornFile {
			_, _ = io.CopyN(out, in, fi.Size()*int64(pct)/100)
			e.rec.Count("fault:torn_file", 1)
			return nil
		}
		_, _ = io.Copy(out, in)
		return nil
	})
	n.snap = dst
}

// crashNode turns the running instance into a zombie and schedules the restart.
func (e *daemonEngine) crashNode(n *dNode) {
	n.mu.Lock()
	n.zombie = true
	n.dd, n.up = nil, false
	if n.gone != nil {
		close(n.gone)
		n.gone = nil
	}
	for _, c := range n.clients {
		c.Self = "zombie-" + n.addr // whatever the dead process still tries to send goes nowhere
	}
	n.mu.Unlock()
	e.w.Unregister(n.addr)
	dnet.VerifFree(n.addr)
	n.clock.Freeze()
	e.rec.Ev("crash", n.addr, "%s", e.crashKind)
	e.rec.Count("fault:crash", 1)
	down := time.Duration(e.sc.Crash.DownMs) * time.Millisecond
	go func() {
		time.Sleep(down + time.Millisecond)
		n.mu.Lock()
		n.dir = n.snap
		n.clock = NewSimClock(0, 7*(n.idx+1)+3)
		n.zombie = false
		n.mu.Unlock()
		err := e.startDaemon(n, false)
		e.checkRestart(n, err)
	}()
}

// checkRestart is the C13 oracle on what the fresh process found on disk.
// crashWindow names the window of the completion sequence (dkg.SaveFinished, key.SaveGroup,
// key.SaveShare) a crash point falls into; other crash points keep their own name.
func crashWindow(kind string) string {
	switch kind {
	case "after dkg.SaveFinished", "torn dkg.SaveFinished", "before key.SaveGroup", "late key.SaveGroup":
		return "between-dkg-record-and-group-file"
	case "torn key.SaveGroup":
		return "group-file-torn"
	case "after key.SaveGroup", "before key.SaveShare", "late key.SaveShare":
		return "between-group-file-and-share-file"
	case "torn key.SaveShare":
		return "share-file-torn"
	}
	// a crash between the file-level steps of writing one file: by what the step left behind
	if strings.HasPrefix(kind, "after file step") {
		file := "group-file"
		if strings.HasSuffix(kind, "key.SaveShare") {
			file = "share-file"
		}
		// with files replaced by rename, a crash before the rename leaves the state the sequence had before
		// this file's step, a crash after it the state before the next step
		switch {
		case strings.Contains(kind, "(remove)"):
			return file + "-removed-not-yet-replaced"
		case file == "group-file" && !strings.Contains(kind, "(rename)"):
			return "between-dkg-record-and-group-file"
		case file == "group-file" || !strings.Contains(kind, "(rename)"):
			return "between-group-file-and-share-file"
		}
	}
	return kind
}

func (e *daemonEngine) checkRestart(n *dNode, startErr error) {
	id := "default"
	facts := crashWindow(e.crashKind)
	e.rec.Count("probe:restarts_from_snapshot", 1)
	if startErr != nil {
		e.rec.Violate("C13", "restart-from-disk-failed", facts, "node %s crashed %s; restarting from its directory fails: %v", n.addr, e.crashKind, startErr)
	}
	mb := filepath.Join(n.dir, common.MultiBeaconFolder)
	ks := key.NewFileStore(mb, id)
	g, gerr := ks.LoadGroup()
	sh, serr := ks.LoadShare()
	_, gstat := os.Stat(filepath.Join(mb, id, key.GroupFolderName, "drand_group.toml"))
	_, sstat := os.Stat(filepath.Join(mb, id, key.GroupFolderName, "dist_key.private"))
	if gstat == nil && gerr != nil {
		e.rec.Violate("C13", "group-file-unreadable", facts, "node %s crashed %s: the group file does not parse: %v", n.addr, e.crashKind, gerr)
	}
	if sstat == nil && serr != nil {
		e.rec.Violate("C13", "share-file-unreadable", facts, "node %s crashed %s: the share file does not parse: %v", n.addr, e.crashKind, serr)
	}
	if g != nil && gerr == nil && sstat != nil {
		e.rec.Violate("C13", "group-without-share", facts, "node %s crashed %s: a group file exists but no share", n.addr, e.crashKind)
	}
	if g != nil && sh != nil && gerr == nil && serr == nil {
		same := len(sh.Commits) == len(g.PublicKey.Coefficients)
		for i := 0; same && i < len(sh.Commits); i++ {
			same = sh.Commits[i].Equal(g.PublicKey.Coefficients[i])
		}
		if !same {
			e.rec.Violate("C13", "group-and-share-of-different-epochs", facts, "node %s crashed %s: the share on disk does not belong to the group file on disk", n.addr, e.crashKind)
		}
	}
	// files that say "member of this group, with this share": the restarted process must run that chain
	if startErr == nil && g != nil && gerr == nil && sh != nil && serr == nil && g.Find(n.pairs[id].Public) != nil {
		bp := e.bp(n, id)
		if bp == nil || bp.VerifGroup() == nil || bp.VerifHandler() == nil {
			e.rec.Violate("C13", "restarted-node-does-not-run-its-chain", facts, "node %s crashed %s: group file and share of one epoch are on disk and list it as a member, but after the restart it holds no group or runs no beacon handler", n.addr, e.crashKind)
		}
	}
	// the DKG database's completed record vs the files
	n.mu.Lock()
	ds := n.dkgStore
	n.mu.Unlock()
	if ds != nil {
		fin, err := ds.GetFinished(id)
		if err != nil {
			e.rec.Violate("C13", "dkg-record-unreadable", facts, "node %s crashed %s: %v", n.addr, e.crashKind, err)
		}
		if fin != nil {
			if fin.FinalGroup == nil || fin.KeyShare == nil {
				e.rec.Violate("C13", "dkg-record-not-whole", facts, "node %s crashed %s: completed record of epoch %d lacks group or share", n.addr, e.crashKind, fin.Epoch)
			} else {
				inNew := fin.FinalGroup.Find(n.pairs[id].Public) != nil
				switch {
				case inNew && (g == nil || gerr != nil):
					e.rec.Violate("C13", "files-behind-dkg-record", facts, "node %s crashed %s: the database records epoch %d as completed, but there is no group file", n.addr, e.crashKind, fin.Epoch)
				case inNew && !bytes.Equal(g.Hash(), fin.FinalGroup.Hash()) && g.TransitionTime > fin.FinalGroup.TransitionTime:
					e.rec.Violate("C13", "files-ahead-of-dkg-record", facts, "node %s crashed %s: the group file on disk (%s, transition %d) is newer than the epoch %d the database records as completed (%s, transition %d)", n.addr, e.crashKind,
						hex.EncodeToString(g.Hash())[:8], g.TransitionTime, fin.Epoch, hex.EncodeToString(fin.FinalGroup.Hash())[:8], fin.FinalGroup.TransitionTime)
				case inNew && !bytes.Equal(g.Hash(), fin.FinalGroup.Hash()):
					e.rec.Violate("C13", "files-behind-dkg-record", facts, "node %s crashed %s: the database records epoch %d as completed (group %s), the group file on disk is another one (%s)", n.addr, e.crashKind, fin.Epoch,
						hex.EncodeToString(fin.FinalGroup.Hash())[:8], hex.EncodeToString(g.Hash())[:8])
				}
			}
			if cur, cerr := ds.GetCurrent(id); cerr == nil && cur != nil && cur.State == dkg.Complete && cur.Epoch != fin.Epoch {
				e.rec.Violate("C13", "dkg-record-not-whole", facts, "node %s crashed %s: the database's latest state says epoch %d is complete, its completed record is still epoch %d", n.addr, e.crashKind, cur.Epoch, fin.Epoch)
			}
		} else if cur, cerr := ds.GetCurrent(id); cerr == nil && cur != nil && cur.State == dkg.Complete {
			e.rec.Violate("C13", "dkg-record-not-whole", facts, "node %s crashed %s: the database's latest state says epoch %d is complete, but it holds no completed record", n.addr, e.crashKind, cur.Epoch)
		} else if g != nil && gerr == nil {
			e.rec.Violate("C13", "files-ahead-of-dkg-record", facts, "node %s crashed %s: a group file exists but the database records no completed epoch", n.addr, e.crashKind)
		}
	}
	// chain store: a gap-free prefix of the chain holding everything this node had served
	cc := e.chains[id]
	if bp := e.bp(n, id); bp != nil && cc.chain != nil {
		if h := bp.VerifHandler(); h != nil {
			var rounds []uint64
			ctx := context.Background()
			if cc.ref.Chained {
				ctx = chain.SetPreviousRequiredOnContext(ctx)
			}
			_ = h.Store().Cursor(ctx, func(ctx context.Context, c chain.Cursor) error {
				for b, err := c.First(ctx); b != nil && err == nil; b, err = c.Next(ctx) {
					rounds = append(rounds, b.Round)
					if b.Round >= 1 {
						if msg := cc.chain.CheckBeacon(b.Round, prevFor(cc, b.Round, b.PreviousSig), b.Signature); msg != "" {
							e.rec.Violate("C13", "chain-store-corrupt-after-crash", facts, "node %s crashed %s: %s", n.addr, e.crashKind, msg)
						}
					}
				}
				return nil
			})
			if e.sc.Backend != "memdb" {
				for k := 1; k < len(rounds); k++ {
					if rounds[k] != rounds[k-1]+1 {
						e.rec.Violate("C13", "chain-store-gap-after-crash", facts, "node %s crashed %s: round %d follows %d", n.addr, e.crashKind, rounds[k], rounds[k-1])
						break
					}
				}
				head := uint64(0)
				if len(rounds) > 0 {
					head = rounds[len(rounds)-1]
				}
				if sm := e.servedMax[n.idx]; sm > head {
					e.rec.Violate("C13", "served-beacon-lost-by-crash", facts, "node %s crashed %s: it had served round %d, its store now ends at %d", n.addr, e.crashKind, sm, head)
				}
			}
		}
	}
}

// ---------------------------------------------------------------- decorators

type pKeyStore struct {
	key.Store
	n    *dNode
	base string
	id   string
}

func (s *pKeyStore) path(parts ...string) string {
	return filepath.Join(append([]string{s.base, s.id}, parts...)...)
}
func (s *pKeyStore) SaveGroup(g *key.Group) error {
	return s.n.persist("key.SaveGroup", s.path(key.GroupFolderName, "drand_group.toml"), func() error {
		err := s.Store.SaveGroup(g)
		if err == nil {
			s.n.mu.Lock()
			s.n.lastGroup[s.id] = g
			s.n.mu.Unlock()
			s.n.e.rtGroupFile(s.n, s.base, s.id, g)
		}
		return err
	})
}
func (s *pKeyStore) SaveShare(sh *key.Share) error {
	return s.n.persist("key.SaveShare", s.path(key.GroupFolderName, "dist_key.private"), func() error {
		err := s.Store.SaveShare(sh)
		if err == nil {
			s.n.mu.Lock()
			s.n.lastShare[s.id] = sh
			s.n.mu.Unlock()
			s.n.e.rtShareFile(s.n, s.base, s.id, sh)
		}
		return err
	})
}
func (s *pKeyStore) Reset() error {
	return s.n.persist("key.Reset", "", func() error {
		s.n.mu.Lock()
		delete(s.n.lastGroup, s.id)
		delete(s.n.lastShare, s.id)
		s.n.mu.Unlock()
		return s.Store.Reset()
	})
}

type pDKGStore struct {
	dkg.Store
	n *dNode
}

func (s *pDKGStore) SaveCurrent(id string, st *dkg.DBState) error {
	s.n.e.onDKGSave(s.n, false, st)
	return s.n.persist("dkg.SaveCurrent", "", func() error {
		err := s.Store.SaveCurrent(id, st)
		if err == nil {
			s.n.e.rtDKG(s.n, s.Store, false, id, st)
		}
		return err
	})
}
func (s *pDKGStore) SaveFinished(id string, st *dkg.DBState) error {
	if e := s.n.e; e.keepIO && st != nil && st.KeyShare != nil && st.KeyShare.Share != nil {
		// a share is a secret from the moment it exists, recorded or not
		if b, err := st.KeyShare.Share.V.MarshalBinary(); err == nil {
			e.stdoutMu.Lock()
			e.oldShares = append(e.oldShares, oldShare{s.n.addr, b})
			e.stdoutMu.Unlock()
		}
	}
	if e := s.n.e; e.sc.CloseDKGDBAtFinish == s.n.idx+1 && st.Epoch >= 2 {
		// storage fault: the database goes away just as the completed epoch is about to be recorded
		_ = s.Store.Close()
		e.rec.Count("fault:dkg_db_closed_before_completion_was_recorded", 1)
		return s.Store.SaveFinished(id, st)
	}
	s.n.e.onDKGSave(s.n, true, st)
	return s.n.persist("dkg.SaveFinished", "", func() error {
		err := s.Store.SaveFinished(id, st)
		if err == nil {
			s.n.e.rtDKG(s.n, s.Store, true, id, st)
		}
		return err
	})
}

type pChainStore struct {
	chain.Store
	n *dNode
}

func (s *pChainStore) Put(ctx context.Context, b *common.Beacon) error {
	err := s.n.persist("chain.Put", "", func() error { return s.Store.Put(ctx, b) })
	s.n.e.onChainPut(s.n, b, err)
	if err == nil {
		s.n.e.rtBeacon(s.n, b)
	}
	return err
}
func (s *pChainStore) Del(ctx context.Context, r uint64) error {
	return s.n.persist("chain.Del", "", func() error { return s.Store.Del(ctx, r) })
}

func (e *daemonEngine) installPersistHooks() {
	core.VerifWrapDKGStore = func(folder string, s dkg.Store) dkg.Store {
		n := e.nodeOfFolder(folder)
		if n == nil {
			return s
		}
		w := &pDKGStore{Store: s, n: n}
		n.mu.Lock()
		n.dkgStore = w
		n.mu.Unlock()
		return w
	}
	core.VerifWrapChainStore = func(folder string, s chain.Store) chain.Store {
		n := e.nodeOfFolder(folder)
		if n == nil {
			return s
		}
		n.mu.Lock()
		n.chainBase = s
		n.mu.Unlock()
		return &pChainStore{Store: s, n: n}
	}
}

func (e *daemonEngine) crashSummary() string {
	if e.sc.Crash == nil {
		return ""
	}
	n := e.nodes[e.sc.Crash.Node]
	return fmt.Sprintf(" crash_ops=%d crash=%q", n.pc.count, e.crashKind)
}
