package zverif

import (
	"sync"
	"time"

	clock "github.com/jonboulle/clockwork"
)

// SimClock is a node's clock: bubble time plus a wall offset that can step
// forward (NTP step / skew), with timers on the monotonic (bubble) scale, and
// "stall" windows during which none of the node's timers fire (a paused or
// starved process); a frozen clock (zombie of a crashed process) never fires
// again.
type SimClock struct {
	mu         sync.Mutex
	offset     time.Duration
	stallUntil time.Time // bubble time
	frozen     bool
	uniq       time.Duration // per-node nanosecond offset used when re-arming after a stall
	jumps      int
}

func NewSimClock(skew time.Duration, uniqNs int) *SimClock {
	return &SimClock{offset: skew + time.Duration(uniqNs), uniq: time.Duration(uniqNs)}
}

func (c *SimClock) Now() time.Time {
	c.mu.Lock()
	defer c.mu.Unlock()
	return time.Now().Add(c.offset)
}

// Jump steps the wall clock forward.
func (c *SimClock) Jump(d time.Duration) {
	if d < 0 {
		return
	}
	c.mu.Lock()
	c.offset += d
	c.jumps++
	c.mu.Unlock()
}

// Stall holds every timer of this clock for d from now.
func (c *SimClock) Stall(d time.Duration) {
	c.mu.Lock()
	u := time.Now().Add(d)
	if u.After(c.stallUntil) {
		c.stallUntil = u
	}
	c.mu.Unlock()
}

// Freeze stops the clock's timers for ever (crashed process).
func (c *SimClock) Freeze() {
	c.mu.Lock()
	c.frozen = true
	c.mu.Unlock()
}

// hold returns (frozen, remaining stall).
func (c *SimClock) hold() (bool, time.Duration) {
	c.mu.Lock()
	defer c.mu.Unlock()
	if c.frozen {
		return true, 0
	}
	if r := time.Until(c.stallUntil); r > 0 {
		return false, r + c.uniq + 1
	}
	return false, 0
}

func (c *SimClock) Since(t time.Time) time.Duration { return c.Now().Sub(t) }
func (c *SimClock) Until(t time.Time) time.Duration { return t.Sub(c.Now()) }

func (c *SimClock) After(d time.Duration) <-chan time.Time { return c.NewTimer(d).Chan() }

func (c *SimClock) Sleep(d time.Duration) { <-c.After(d) }

type simTimer struct {
	c   *SimClock
	mu  sync.Mutex
	t   *time.Timer
	ch  chan time.Time
	f   func()
	gen int
}

func (t *simTimer) arm(d time.Duration) {
	t.gen++
	gen := t.gen
	t.t = time.AfterFunc(d, func() { t.fire(gen) })
}

func (t *simTimer) fire(gen int) {
	frozen, rem := t.c.hold()
	if frozen {
		return
	}
	t.mu.Lock()
	if gen != t.gen {
		t.mu.Unlock()
		return
	}
	if rem > 0 {
		t.arm(rem)
		t.mu.Unlock()
		return
	}
	f := t.f
	t.mu.Unlock()
	if f != nil {
		f()
		return
	}
	select {
	case t.ch <- t.c.Now():
	default:
	}
}

func (t *simTimer) Chan() <-chan time.Time { return t.ch }
func (t *simTimer) Reset(d time.Duration) bool {
	t.mu.Lock()
	defer t.mu.Unlock()
	was := t.t.Stop()
	t.arm(d)
	return was
}
func (t *simTimer) Stop() bool {
	t.mu.Lock()
	defer t.mu.Unlock()
	t.gen++
	return t.t.Stop()
}

func (c *SimClock) NewTimer(d time.Duration) clock.Timer {
	t := &simTimer{c: c, ch: make(chan time.Time, 1)}
	t.mu.Lock()
	t.arm(d)
	t.mu.Unlock()
	return t
}

func (c *SimClock) AfterFunc(d time.Duration, f func()) clock.Timer {
	t := &simTimer{c: c, f: f}
	t.mu.Lock()
	t.arm(d)
	t.mu.Unlock()
	return t
}

type simTicker struct {
	c       *SimClock
	mu      sync.Mutex
	d       time.Duration
	t       *time.Timer
	ch      chan time.Time
	gen     int
	stopped bool
	next    time.Time // bubble time of the next nominal tick
}

func (t *simTicker) arm(d time.Duration) {
	t.gen++
	gen := t.gen
	t.t = time.AfterFunc(d, func() { t.fire(gen) })
}

func (t *simTicker) fire(gen int) {
	frozen, rem := t.c.hold()
	if frozen {
		return
	}
	t.mu.Lock()
	if gen != t.gen || t.stopped {
		t.mu.Unlock()
		return
	}
	if rem > 0 {
		// ticks due during the stall collapse into the one delivered at its end;
		// the phase of later ticks is kept
		t.arm(rem)
		t.mu.Unlock()
		return
	}
	// like the runtime's tickers: the next tick keeps the phase the ticker was started with, whatever
	// the delay of this one (ticks missed during a stall are dropped, not shifted)
	now := time.Now()
	for !t.next.After(now) {
		t.next = t.next.Add(t.d)
	}
	t.arm(t.next.Sub(now))
	t.mu.Unlock()
	select {
	case t.ch <- t.c.Now():
	default:
	}
}

func (t *simTicker) Chan() <-chan time.Time { return t.ch }
func (t *simTicker) Reset(d time.Duration) {
	t.mu.Lock()
	defer t.mu.Unlock()
	t.t.Stop()
	t.d = d
	t.next = time.Now().Add(d)
	t.arm(d)
}
func (t *simTicker) Stop() {
	t.mu.Lock()
	defer t.mu.Unlock()
	t.stopped = true
	t.gen++
	t.t.Stop()
}

func (c *SimClock) NewTicker(d time.Duration) clock.Ticker {
	t := &simTicker{c: c, d: d, ch: make(chan time.Time, 1), next: time.Now().Add(d)}
	t.mu.Lock()
	t.arm(d)
	t.mu.Unlock()
	return t
}
