// Package zverif is the deterministic simulator for drand (see /verif/DESIGN.md).
// Everything in a run is created inside one testing/synctest bubble; every
// in-run decision is a pure function of (seed, identity, virtual time).
package zverif

import (
	"crypto/sha256"
	"encoding/binary"
	"encoding/hex"
	"fmt"
	"os"
	"sort"
	"strings"
	"sync"
	"time"

	"go.uber.org/zap"
	"go.uber.org/zap/zapcore"

	dlog "github.com/drand/drand/v2/common/log"
	simrt "github.com/drand/drand/v2/zsimrt"
	simsync "github.com/drand/drand/v2/zsimsync"
	bsimsync "go.etcd.io/bbolt/zsimsync"
)

// ---------------------------------------------------------------- hashing

// H64 is the only source of in-run "randomness": a hash of the seed and the
// identity of the thing being decided.
func H64(seed uint64, parts ...any) uint64 {
	h := sha256.New()
	var b [8]byte
	binary.BigEndian.PutUint64(b[:], seed)
	h.Write(b[:])
	for _, p := range parts {
		switch v := p.(type) {
		case string:
			h.Write([]byte(v))
			h.Write([]byte{0})
		case []byte:
			h.Write(v)
			h.Write([]byte{1})
		case uint64:
			binary.BigEndian.PutUint64(b[:], v)
			h.Write(b[:])
		case int64:
			binary.BigEndian.PutUint64(b[:], uint64(v))
			h.Write(b[:])
		case int:
			binary.BigEndian.PutUint64(b[:], uint64(v))
			h.Write(b[:])
		case time.Duration:
			binary.BigEndian.PutUint64(b[:], uint64(v))
			h.Write(b[:])
		default:
			fmt.Fprintf(h, "%v", v)
			h.Write([]byte{2})
		}
	}
	return binary.BigEndian.Uint64(h.Sum(nil)[:8])
}

// Rng is a small splitmix64 generator used only for *generating* scenarios
// (before the bubble is entered).
type Rng struct{ s uint64 }

func NewRng(seed uint64) *Rng { return &Rng{s: seed*0x9E3779B97F4A7C15 + 0x1234567} }
func (r *Rng) U64() uint64 {
	r.s += 0x9E3779B97F4A7C15
	z := r.s
	z = (z ^ (z >> 30)) * 0xBF58476D1CE4E5B9
	z = (z ^ (z >> 27)) * 0x94D049BB133111EB
	return z ^ (z >> 31)
}
func (r *Rng) Intn(n int) int {
	if n <= 0 {
		return 0
	}
	return int(r.U64() % uint64(n))
}
func (r *Rng) Range(lo, hi int) int { return lo + r.Intn(hi-lo+1) }
func (r *Rng) Bool(pct int) bool    { return r.Intn(100) < pct }
func (r *Rng) Pick(xs ...string) string {
	return xs[r.Intn(len(xs))]
}
func (r *Rng) Perm(n int) []int {
	p := make([]int, n)
	for i := range p {
		p[i] = i
	}
	for i := n - 1; i > 0; i-- {
		j := r.Intn(i + 1)
		p[i], p[j] = p[j], p[i]
	}
	return p
}

// ---------------------------------------------------------------- recorder

// Event is one recorded happening. Seq is the global order of recording.
type Event struct {
	Seq  int
	T    int64 // virtual unix nanoseconds
	Kind string
	Node string
	Text string
}

// Violation is one failed oracle.
type Violation struct {
	Prop   string `json:"prop"`   // property id, e.g. C01
	Oracle string `json:"oracle"` // stable oracle name
	Facts  string `json:"facts"`  // discriminating facts (node, round, site): part of the finding signature
	Detail string `json:"detail"` // free text
	T      int64  `json:"t"`
}

func (v Violation) Sig() string { return v.Prop + "/" + v.Oracle + "/" + v.Facts }

// traceEvery (VERIF_TRACE=n) prints every n-th event to stderr: for looking at runs that do not end.
var traceEvery = func() int {
	n := 0
	fmt.Sscanf(os.Getenv("VERIF_TRACE"), "%d", &n)
	return n
}()

type Recorder struct {
	mu       sync.Mutex
	events   []Event
	keep     bool
	counters map[string]int
	viol     []Violation
	violSeen map[string]bool
	alias    map[string][2]string
}

func NewRecorder(keep bool) *Recorder {
	return &Recorder{keep: keep, counters: map[string]int{}, violSeen: map[string]bool{}}
}

func (r *Recorder) Ev(kind, node, format string, a ...any) int {
	t := time.Now().UnixNano()
	r.mu.Lock()
	defer r.mu.Unlock()
	seq := len(r.events)
	text := format
	if len(a) > 0 {
		text = fmt.Sprintf(format, a...)
	}
	r.events = append(r.events, Event{Seq: seq, T: t, Kind: kind, Node: node, Text: text})
	if traceEvery > 0 && seq%traceEvery == 0 {
		fmt.Fprintf(os.Stderr, "trace: event %d at virtual %s: %s %s %s\n", seq, time.Unix(0, t).UTC().Format("15:04:05.000"), kind, node, text)
	}
	return seq
}

func (r *Recorder) Seq() int {
	r.mu.Lock()
	defer r.mu.Unlock()
	return len(r.events)
}

func (r *Recorder) Count(name string, n int) {
	r.mu.Lock()
	r.counters[name] += n
	r.mu.Unlock()
}

func (r *Recorder) Counter(name string) int {
	r.mu.Lock()
	defer r.mu.Unlock()
	return r.counters[name]
}

func (r *Recorder) Counters() map[string]int {
	r.mu.Lock()
	defer r.mu.Unlock()
	m := make(map[string]int, len(r.counters))
	for k, v := range r.counters {
		m[k] = v
	}
	return m
}

// Alias makes every violation of (prop, oracle) also count as a violation of
// another property under another oracle name (used where one property is the
// restriction of others to a particular path, e.g. C10 = C01/C02/C05 on the sync path).
func (r *Recorder) Alias(prop, oracle, asProp, asOracle string) {
	r.mu.Lock()
	if r.alias == nil {
		r.alias = map[string][2]string{}
	}
	r.alias[prop+"/"+oracle] = [2]string{asProp, asOracle}
	r.mu.Unlock()
}

func (r *Recorder) Violate(prop, oracle, facts, format string, a ...any) {
	r.mu.Lock()
	al, ok := r.alias[prop+"/"+oracle]
	r.mu.Unlock()
	if ok {
		r.violate1(al[0], al[1], facts, format, a...)
	}
	r.violate1(prop, oracle, facts, format, a...)
}

func (r *Recorder) violate1(prop, oracle, facts, format string, a ...any) {
	v := Violation{Prop: prop, Oracle: oracle, Facts: facts, Detail: fmt.Sprintf(format, a...), T: time.Now().UnixNano()}
	r.mu.Lock()
	defer r.mu.Unlock()
	if r.violSeen[v.Sig()] {
		return
	}
	r.violSeen[v.Sig()] = true
	r.viol = append(r.viol, v)
}

func (r *Recorder) Violations() []Violation {
	r.mu.Lock()
	defer r.mu.Unlock()
	return append([]Violation(nil), r.viol...)
}

// LogHash is the determinism fingerprint: events sorted by (time, kind, node,
// text) - recording order inside one virtual instant is not part of it.
func (r *Recorder) LogHash() (string, int) {
	r.mu.Lock()
	evs := append([]Event(nil), r.events...)
	r.mu.Unlock()
	lines := make([]string, len(evs))
	for i, e := range evs {
		lines[i] = fmt.Sprintf("%d %s %s %s", e.T, e.Kind, e.Node, e.Text)
	}
	sort.Strings(lines)
	h := sha256.New()
	for _, l := range lines {
		h.Write([]byte(l))
		h.Write([]byte{'\n'})
	}
	return hex.EncodeToString(h.Sum(nil)[:8]), len(lines)
}

// Signature is the abstract run signature used for distinct_nontrivial: the
// sequence of (kind, node) without times and bytes.
func (r *Recorder) Signature() string {
	r.mu.Lock()
	defer r.mu.Unlock()
	h := sha256.New()
	for _, e := range r.events {
		if e.Kind == "log" {
			continue
		}
		h.Write([]byte(e.Kind))
		h.Write([]byte{0})
		h.Write([]byte(e.Node))
		h.Write([]byte{0})
	}
	return hex.EncodeToString(h.Sum(nil)[:8])
}

func (r *Recorder) Dump(w *os.File) {
	r.mu.Lock()
	defer r.mu.Unlock()
	for _, e := range r.events {
		fmt.Fprintf(w, "%6d %s %-10s %-8s %s\n", e.Seq, time.Unix(0, e.T).UTC().Format("15:04:05.000000000"), e.Kind, e.Node, e.Text)
	}
}

// ---------------------------------------------------------------- logger

// logPatterns are the "rare condition was hit" probes counted on log lines.
var logPatterns = []string{
	"race with SyncManager", "race with aggregation", "catchupmode", "canceling old sync",
	"ignoring future partial", "callback replaced", "invalid_sig", "invalid_recovery",
	"Invalid_beacon", "wrong beaconID", "sync canceled", "ignoring_partial", "unable_to_sync",
	"Tried all nodes without success", "run_sync_catchup", "re-broadcasting already stored",
	"received a partial with our own", "SyncChain channel closed", "invalid round inserted",
	"invalid previous signature", "new_aggregated", "Preparing transition",
}

type logSink struct {
	rec   *Recorder
	node  string
	keep  bool
	mu    sync.Mutex
	lines []string
	onLn  func(node, line string)
}

var echoLogs = os.Getenv("VERIF_LOGS") != ""

func (s *logSink) Write(p []byte) (int, error) {
	line := string(p)
	if echoLogs {
		fmt.Fprintf(os.Stderr, "LOG %s %s %s", time.Now().UTC().Format("15:04:05.000"), s.node, line)
	}
	for _, pat := range logPatterns {
		if strings.Contains(line, pat) {
			s.rec.Count("log:"+pat, 1)
		}
	}
	if s.onLn != nil {
		s.onLn(s.node, line)
	}
	if s.keep {
		s.mu.Lock()
		s.lines = append(s.lines, line)
		s.mu.Unlock()
	}
	return len(p), nil
}
func (s *logSink) Sync() error { return nil }

type fatalHook struct {
	onFatal func()
}

func (f fatalHook) OnWrite(*zapcore.CheckedEntry, []zapcore.Field) {
	if f.onFatal != nil {
		f.onFatal()
	}
	// the process would be gone: this goroutine never continues
	select {}
}

// NewNodeLogger builds drand's own logger type over a capturing sink. A Fatal
// marks the node dead (onFatal) and parks the calling goroutine for ever.
func NewNodeLogger(rec *Recorder, node string, level int, keep bool, onLine func(node, line string), onFatal func()) (dlog.Logger, *logSink) {
	sink := &logSink{rec: rec, node: node, keep: keep, onLn: onLine}
	ec := zap.NewProductionEncoderConfig()
	ec.EncodeTime = zapcore.ISO8601TimeEncoder
	ec.EncodeLevel = zapcore.CapitalLevelEncoder
	core := zapcore.NewCore(zapcore.NewJSONEncoder(ec), sink, zapcore.Level(level))
	l := dlog.VerifNew(core, zap.WithCaller(false), zap.WithFatalHook(fatalHook{onFatal}))
	return l, sink
}

// ---------------------------------------------------------------- yields

// YieldPlan decides at which schedule points a goroutine steps aside. The
// decision is a pure function of (seed, site, virtual now).
type YieldPlan struct {
	Seed    uint64 `json:"seed"`
	PerMill int    `json:"per_mill"` // probability per visit, in 1/1000
	MaxNs   int    `json:"max_ns"`   // sleep between 1 and MaxNs nanoseconds
}

var yieldFired int64
var yieldMu sync.Mutex

func InstallYields(p YieldPlan, rec *Recorder) {
	if p.PerMill <= 0 {
		simsync.YieldHook, bsimsync.YieldHook, simrt.YieldHook = nil, nil, nil
		return
	}
	maxNs := uint64(p.MaxNs)
	if maxNs == 0 {
		maxNs = 50_000
	}
	hook := func(site string) {
		v := H64(p.Seed, site, time.Now().UnixNano())
		if int(v%1000) < p.PerMill {
			rec.Count("yield", 1)
			time.Sleep(time.Duration(1 + (v>>12)%maxNs))
		}
	}
	simsync.YieldHook, bsimsync.YieldHook, simrt.YieldHook = hook, hook, hook
}

func UninstallYields() {
	simsync.YieldHook, bsimsync.YieldHook, simrt.YieldHook = nil, nil, nil
	simrt.PermHook = nil
}
