package zverif

// Reference cryptography for the oracles: the five public drand schemes as an
// outside verifier pins them (groups, domain-separation tags, digest of a
// round), declared here on top of kyber and NOT imported from /repo/crypto, so
// that a change in the tree cannot move the oracle with it.

import (
	"bytes"
	"crypto/sha256"
	"encoding/binary"
	"fmt"
	"sync"

	"github.com/drand/kyber"
	bls "github.com/drand/kyber-bls12381"
	"github.com/drand/kyber/pairing"
	bn254 "github.com/drand/kyber/pairing/bn254"
	"github.com/drand/kyber/share"
	"github.com/drand/kyber/sign"
	//nolint:staticcheck
	signBls "github.com/drand/kyber/sign/bls"
	"golang.org/x/crypto/sha3"
)

type RefScheme struct {
	Name     string
	Chained  bool
	KeyGroup kyber.Group
	SigGroup kyber.Group
	Sig      sign.Scheme // plain BLS on the signature group
	Digest   func(round uint64, prev []byte) []byte
}

var SchemeNames = []string{
	"pedersen-bls-chained", "pedersen-bls-unchained", "bls-unchained-g1-rfc9380",
	"bls-unchained-on-g1", "bls-bn254-unchained-on-g1",
}

func sha256Round(round uint64) []byte {
	h := sha256.New()
	_ = binary.Write(h, binary.BigEndian, round)
	return h.Sum(nil)
}

func NewRefScheme(name string) (*RefScheme, error) {
	const g1dst = "BLS_SIG_BLS12381G1_XMD:SHA-256_SSWU_RO_NUL_"
	const g2dst = "BLS_SIG_BLS12381G2_XMD:SHA-256_SSWU_RO_NUL_"
	var p pairing.Suite
	switch name {
	case "pedersen-bls-chained":
		p = bls.NewBLS12381SuiteWithDST([]byte(g1dst), []byte(g2dst))
		return &RefScheme{Name: name, Chained: true, KeyGroup: p.G1(), SigGroup: p.G2(), Sig: signBls.NewSchemeOnG2(p),
			Digest: func(round uint64, prev []byte) []byte {
				h := sha256.New()
				if len(prev) > 0 {
					h.Write(prev)
				}
				_ = binary.Write(h, binary.BigEndian, round)
				return h.Sum(nil)
			}}, nil
	case "pedersen-bls-unchained":
		p = bls.NewBLS12381SuiteWithDST([]byte(g1dst), []byte(g2dst))
		return &RefScheme{Name: name, KeyGroup: p.G1(), SigGroup: p.G2(), Sig: signBls.NewSchemeOnG2(p),
			Digest: func(round uint64, _ []byte) []byte { return sha256Round(round) }}, nil
	case "bls-unchained-g1-rfc9380":
		p = bls.NewBLS12381SuiteWithDST([]byte(g1dst), []byte(g2dst))
		return &RefScheme{Name: name, KeyGroup: p.G2(), SigGroup: p.G1(), Sig: signBls.NewSchemeOnG1(p),
			Digest: func(round uint64, _ []byte) []byte { return sha256Round(round) }}, nil
	case "bls-unchained-on-g1":
		// the deprecated scheme hashes to G1 with the G2 tag
		p = bls.NewBLS12381SuiteWithDST([]byte(g2dst), []byte(g2dst))
		return &RefScheme{Name: name, KeyGroup: p.G2(), SigGroup: p.G1(), Sig: signBls.NewSchemeOnG1(p),
			Digest: func(round uint64, _ []byte) []byte { return sha256Round(round) }}, nil
	case "bls-bn254-unchained-on-g1":
		s := bn254.NewSuite()
		s.SetDomainG1([]byte("BLS_SIG_BN254G1_XMD:KECCAK-256_SVDW_RO_NUL_"))
		s.SetDomainG2([]byte("BLS_SIG_BN254G2_XMD:KECCAK-256_SVDW_RO_NUL_"))
		return &RefScheme{Name: name, KeyGroup: s.G2(), SigGroup: s.G1(), Sig: signBls.NewSchemeOnG1(s),
			Digest: func(round uint64, _ []byte) []byte {
				h := sha3.NewLegacyKeccak256()
				_ = binary.Write(h, binary.BigEndian, round)
				return h.Sum(nil)
			}}, nil
	}
	return nil, fmt.Errorf("unknown scheme %q", name)
}

// RefChain computes the one chain a given master secret can produce (BLS
// signatures are unique): sig_r = Sign(master, digest(r, sig_{r-1})).
type RefChain struct {
	S       *RefScheme
	mu      sync.Mutex
	master  kyber.Scalar
	pub     kyber.Point
	genesis []byte
	sigs    [][]byte // sigs[0] = genesis seed
}

func NewRefChain(s *RefScheme, master kyber.Scalar, genesisSeed []byte) *RefChain {
	return &RefChain{S: s, master: master, pub: s.KeyGroup.Point().Mul(master, nil), genesis: genesisSeed, sigs: [][]byte{genesisSeed}}
}

func (c *RefChain) Pub() kyber.Point { return c.pub }

// Sig returns the expected signature of round r (r=0: genesis seed).
func (c *RefChain) Sig(r uint64) []byte {
	c.mu.Lock()
	defer c.mu.Unlock()
	if !c.S.Chained {
		// cache sparse
		for uint64(len(c.sigs)) <= r && r < 1<<20 {
			n := uint64(len(c.sigs))
			sg, err := c.S.Sig.Sign(c.master, c.S.Digest(n, nil))
			if err != nil {
				panic(err)
			}
			c.sigs = append(c.sigs, sg)
		}
		if r < uint64(len(c.sigs)) {
			return c.sigs[r]
		}
		sg, err := c.S.Sig.Sign(c.master, c.S.Digest(r, nil))
		if err != nil {
			panic(err)
		}
		return sg
	}
	if r >= 1<<20 {
		return nil // not reachable on a chained network in a run
	}
	for uint64(len(c.sigs)) <= r {
		n := uint64(len(c.sigs))
		sg, err := c.S.Sig.Sign(c.master, c.S.Digest(n, c.sigs[n-1]))
		if err != nil {
			panic(err)
		}
		c.sigs = append(c.sigs, sg)
	}
	return c.sigs[r]
}

// Prev returns the previous signature a stored/served beacon of round r is
// expected to carry (nil on unchained schemes).
func (c *RefChain) Prev(r uint64) []byte {
	if !c.S.Chained || r == 0 {
		return nil
	}
	return c.Sig(r - 1)
}

// VerifyStandalone checks sig against the public key by pairing, for values
// that are not on the harness's chain index (defence in depth for C01).
func (c *RefChain) VerifyStandalone(round uint64, prev, sig []byte) error {
	return c.S.Sig.Verify(c.pub, c.S.Digest(round, prev), sig)
}

// CheckBeacon is the C01 comparison; it returns "" when (round, prev, sig) is
// exactly the chain's beacon.
func (c *RefChain) CheckBeacon(round uint64, prev, sig []byte) string {
	if round == 0 {
		if !bytes.Equal(sig, c.genesis) {
			return "round 0 is not the genesis seed"
		}
		return ""
	}
	if c.S.Chained && round >= 1<<20 {
		return "absurd round on a chained network"
	}
	if !bytes.Equal(sig, c.Sig(round)) {
		return fmt.Sprintf("signature of round %d is not the chain's (got %x.. want %x..)", round, head(sig), head(c.Sig(round)))
	}
	if c.S.Chained && !bytes.Equal(prev, c.Sig(round-1)) {
		return fmt.Sprintf("previous signature carried by round %d is not the signature of round %d", round, round-1)
	}
	return ""
}

func head(b []byte) []byte {
	if len(b) > 6 {
		return b[:6]
	}
	return b
}

// PartialSig is what member idx (share value s) must produce for msg: the
// 2-byte big-endian index followed by the BLS signature under its share.
func (s *RefScheme) PartialSig(idx int, sh kyber.Scalar, msg []byte) []byte {
	sg, err := s.Sig.Sign(sh, msg)
	if err != nil {
		panic(err)
	}
	out := make([]byte, 2+len(sg))
	binary.BigEndian.PutUint16(out, uint16(idx))
	copy(out[2:], sg)
	return out
}

// Dealer: a seeded trusted dealer for E-beacon.
type Dealt struct {
	Master  kyber.Scalar
	Shares  []*share.PriShare
	Commits []kyber.Point
}

func Deal(s *RefScheme, seed uint64, n, t int) *Dealt {
	str := newSeededStream(seed)
	secret := s.KeyGroup.Scalar().Pick(str)
	pri := share.NewPriPoly(s.KeyGroup, t, secret, str)
	pub := pri.Commit(s.KeyGroup.Point().Base())
	_, commits := pub.Info()
	return &Dealt{Master: secret, Shares: pri.Shares(n), Commits: commits}
}

// Redeal shares the same secret again with a fresh polynomial of threshold t.
func Redeal(s *RefScheme, seed uint64, n, t int, secret kyber.Scalar) *Dealt {
	str := newSeededStream(seed)
	pri := share.NewPriPoly(s.KeyGroup, t, secret, str)
	pub := pri.Commit(s.KeyGroup.Point().Base())
	_, commits := pub.Info()
	return &Dealt{Master: secret, Shares: pri.Shares(n), Commits: commits}
}

// seededStream is a deterministic cipher.Stream (SHA-256 in counter mode).
type seededStream struct {
	seed uint64
	ctr  uint64
	buf  []byte
}

func newSeededStream(seed uint64) *seededStream { return &seededStream{seed: seed} }

func (s *seededStream) XORKeyStream(dst, src []byte) {
	for i := range src {
		if len(s.buf) == 0 {
			var b [16]byte
			binary.BigEndian.PutUint64(b[:8], s.seed)
			binary.BigEndian.PutUint64(b[8:], s.ctr)
			s.ctr++
			sum := sha256.Sum256(b[:])
			s.buf = sum[:]
		}
		dst[i] = src[i] ^ s.buf[0]
		s.buf = s.buf[1:]
	}
}
