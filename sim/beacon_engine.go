package zverif

// E-beacon: n real beacon.Handler instances (with their chainStore, SyncManager,
// decorator stack and a real base store) on the simulated transport, shares
// dealt by the harness, Byzantine members played by the harness.

import (
	"bytes"
	"context"
	"crypto/sha256"
	"encoding/binary"
	"fmt"
	"io"
	"os"
	"path/filepath"
	"sort"
	"sync"
	"testing"
	"testing/synctest"
	"time"

	"google.golang.org/protobuf/proto"

	"github.com/drand/drand/v2/common"
	"github.com/drand/drand/v2/common/key"
	dlog "github.com/drand/drand/v2/common/log"
	"github.com/drand/drand/v2/crypto"
	"github.com/drand/drand/v2/internal/chain"
	"github.com/drand/drand/v2/internal/chain/beacon"
	"github.com/drand/drand/v2/internal/chain/boltdb"
	"github.com/drand/drand/v2/internal/chain/memdb"
	"github.com/drand/drand/v2/protobuf/drand"
	simrt "github.com/drand/drand/v2/zsimrt"
	kdkg "github.com/drand/kyber/share/dkg"
)

type Act struct {
	AtMs  int64  `json:"at_ms"`
	Kind  string `json:"kind"`
	Node  int    `json:"node,omitempty"`
	A     int64  `json:"a,omitempty"`
	B     int64  `json:"b,omitempty"`
	Nodes []int  `json:"nodes,omitempty"`
	S     string `json:"s,omitempty"`
}

type BeaconScenario struct {
	Engine     string    `json:"engine"`
	Prop       string    `json:"prop"`
	Seed       uint64    `json:"seed"`
	N          int       `json:"n"`
	T          int       `json:"t"`
	Scheme     string    `json:"scheme"`
	PeriodS    int       `json:"period_s"`
	CatchupMs  int       `json:"catchup_ms"`
	Backend    string    `json:"backend"` // bolt-trimmed | bolt | memdb
	MemSize    int       `json:"mem_size,omitempty"`
	GenesisInS int       `json:"genesis_in_s"`
	Rounds     int       `json:"rounds"`
	Net        NetPlan   `json:"net"`
	Roles      []string  `json:"roles"` // honest | silent | byz
	SkewMs     []int     `json:"skew_ms"`
	Yield      YieldPlan `json:"yield"`
	Script     []Act     `json:"script"`
	HealAtMs   int64     `json:"heal_at_ms"` // every fault has ended by then
	NoSync     bool      `json:"no_sync,omitempty"`
	ExpectNone bool      `json:"expect_none,omitempty"` // fewer than t contributors: no beacon may appear
	SyncLies   string    `json:"sync_lies,omitempty"`   // behaviour of byzantine members as sync peers
	StallSync  int       `json:"stall_sync,omitempty"`  // honest->honest sync streams stall after k items (-1/0 off)
	Backends   []string  `json:"backends,omitempty"`    // per node; overrides Backend when set
	Hole       int       `json:"hole,omitempty"`        // >0: DKG index Hole-1 did not qualify: the group's indices skip it
	Reshare    *Reshare  `json:"reshare,omitempty"`
}

// Reshare: all members switch to a fresh sharing of the same secret with threshold
// NewT at round AtRound (through Handler.TransitionNewGroup, announced AnnounceMs before).
type Reshare struct {
	AtRound    uint64 `json:"at_round"`
	NewT       int    `json:"new_t"`
	Drop       int    `json:"drop,omitempty"` // node (position + 1) that is no longer a member of the new group although it was dealt a share of it
	AnnounceMs int64  `json:"announce_ms"` // when TransitionNewGroup is called (from start)
}

type epoch struct {
	from  uint64 // first round signed by this epoch's shares
	t     int
	dealt *Dealt
	group *key.Group
}

type putRec struct {
	seq   int
	t     time.Time
	round uint64
	sig   []byte
	prev  []byte
	err   error
}

type bNode struct {
	e      *beaconEngine
	idx    int // position in the node list
	sidx   int // DKG / share index (differs from idx when the group has a hole)
	addr   string
	role   string
	storeFailN  int           // the next N Puts on the base store fail (disk error)
	storeSlow   time.Duration // every base store operation takes this long (slow disk)
	storeSlowTo time.Time
	clock  *SimClock
	dir    string
	gen    int
	mu     sync.Mutex
	h      *beacon.Handler
	base   chain.Store
	store  *recStore
	client *SimClient
	up     bool
	dead   bool // Fatal was logged
	since  time.Time
	fast   bool // clock ahead of true time at some point
	puts   []putRec
	first  map[uint64]int // round -> seq of first successful Put (this incarnation and before)
	// C03 bookkeeping: valid contributors delivered (or self-emitted) per round
	contrib map[uint64]map[int]int // round -> index -> seq
}

type beaconEngine struct {
	sc     *BeaconScenario
	t      *testing.T
	rec    *Recorder
	w      *World
	ref    *RefScheme
	sch    *crypto.Scheme
	dealt  *Dealt
	epochs []*epoch
	chain  *RefChain
	group  *key.Group
	pairs  []*key.Pair
	nodes  []*bNode
	dir    string
	start  time.Time
	gen    time.Time // genesis
	period time.Duration
	lg     dlog.Logger
	served int
}

// ---- recording store -------------------------------------------------------

type recStore struct {
	chain.Store
	n *bNode
}

var errDisk = fmt.Errorf("sim: injected disk error")

func (s *recStore) slow() {
	s.n.mu.Lock()
	d, to := s.n.storeSlow, s.n.storeSlowTo
	s.n.mu.Unlock()
	if d > 0 && time.Now().Before(to) {
		s.n.e.rec.Count("fault:slow_disk_op", 1)
		time.Sleep(d)
	}
}

func (s *recStore) Last(ctx context.Context) (*common.Beacon, error) {
	s.slow()
	return s.Store.Last(ctx)
}

func (s *recStore) Get(ctx context.Context, r uint64) (*common.Beacon, error) {
	s.slow()
	return s.Store.Get(ctx, r)
}

func (s *recStore) Put(ctx context.Context, b *common.Beacon) error {
	e := s.n.e
	round, sig, prev := b.Round, append([]byte(nil), b.Signature...), append([]byte(nil), b.PreviousSig...)
	s.slow()
	s.n.mu.Lock()
	fail := s.n.storeFailN > 0 && round > 0
	if fail {
		s.n.storeFailN--
	}
	s.n.mu.Unlock()
	var err error
	if fail {
		err = errDisk
		e.rec.Count("fault:disk_put_error", 1)
	} else {
		err = s.Store.Put(ctx, b)
	}
	seq := e.rec.Ev("put", s.n.addr, "round=%d ok=%v", round, err == nil)
	s.n.mu.Lock()
	s.n.puts = append(s.n.puts, putRec{seq: seq, t: time.Now(), round: round, sig: sig, prev: prev, err: err})
	firstSeen := false
	if err == nil {
		if _, ok := s.n.first[round]; !ok {
			s.n.first[round] = seq
			firstSeen = true
		}
	}
	s.n.mu.Unlock()
	if err == nil {
		e.onPut(s.n, seq, round, sig, prev, firstSeen)
	}
	return err
}

// ---- endpoints --------------------------------------------------------------

type beaconEP struct{ n *bNode }

type simSyncStream struct {
	ctx  context.Context
	send func(proto.Message) error
}

func (s *simSyncStream) Context() context.Context { return s.ctx }
func (s *simSyncStream) Send(b *drand.BeaconPacket) error {
	return s.send(b)
}

func (ep *beaconEP) Unary(ctx context.Context, method string, req []byte) (proto.Message, error) {
	n := ep.n
	switch method {
	case MHealth:
		return new(drand.Empty), nil
	case MPartial:
		p := new(drand.PartialBeaconPacket)
		if err := proto.Unmarshal(req, p); err != nil {
			return nil, err
		}
		n.mu.Lock()
		h := n.h
		n.mu.Unlock()
		if h == nil {
			return nil, errRefused
		}
		e := n.e
		nowU := n.clock.Now().Unix()
		cur := refCurrentRound(nowU, e.sc.PeriodS, e.gen.Unix())
		seq := e.rec.Seq()
		valid, idx := e.partialValid(p)
		if valid && idx != n.sidx {
			n.mu.Lock()
			m := n.contrib[p.Round]
			if m == nil {
				m = map[int]int{}
				n.contrib[p.Round] = m
			}
			if _, ok := m[idx]; !ok {
				m[idx] = seq
			}
			n.mu.Unlock()
		}
		_, err := h.ProcessPartialBeacon(ctx, p)
		if p.Round > cur+1 && err == nil {
			e.rec.Violate("C04", "future-partial-accepted", fmt.Sprintf("ahead=%d", min64(p.Round-cur, 9)),
				"node %s at own time %d (current round %d) accepted a partial for round %d without error", n.addr, nowU, cur, p.Round)
		}
		if p.Round > cur+1 {
			e.rec.Count("probe:future_partial_delivered", 1)
		}
		return new(drand.Empty), err
	case MSyncChain:
		return nil, unimplemented(method)
	}
	return nil, unimplemented(method)
}

func (ep *beaconEP) Stream(ctx context.Context, method string, req []byte, send func(proto.Message) error) error {
	n := ep.n
	if method != MSyncChain {
		return unimplemented(method)
	}
	r := new(drand.SyncRequest)
	if err := proto.Unmarshal(req, r); err != nil {
		return err
	}
	n.mu.Lock()
	h := n.h
	n.mu.Unlock()
	if h == nil {
		return errRefused
	}
	return beacon.SyncChain(n.e.lg, h.Store(), r, &simSyncStream{ctx: ctx, send: send})
}

// refCurrentRound: the harness's own integer arithmetic for "round at time now".
func refCurrentRound(now int64, periodS int, genesis int64) uint64 {
	if now < genesis {
		return 0
	}
	return uint64((now-genesis)/int64(periodS)) + 1
}

func refTimeOfRound(round uint64, periodS int, genesis int64) int64 {
	if round == 0 {
		return genesis
	}
	return genesis + int64(round-1)*int64(periodS)
}

func min64(a, b uint64) uint64 {
	if a < b {
		return a
	}
	return b
}

// partialValid decides, with harness keys only, whether p is the partial
// member idx must produce for (round, expected previous signature).
func (e *beaconEngine) epochOf(round uint64) *epoch {
	ep := e.epochs[0]
	for _, x := range e.epochs {
		if round >= x.from {
			ep = x
		}
	}
	return ep
}

func (e *beaconEngine) partialValid(p *drand.PartialBeaconPacket) (bool, int) {
	ps := p.GetPartialSig()
	if len(ps) < 2 {
		return false, -1
	}
	idx := int(binary.BigEndian.Uint16(ps[:2]))
	ep := e.epochOf(p.Round)
	if idx >= len(ep.dealt.Shares) || ep.group.Node(uint32(idx)) == nil {
		return false, idx // not a member of the group that signs this round
	}
	if e.ref.Chained && (p.Round == 0 || p.Round >= 1<<20) {
		return false, idx
	}
	var prev []byte
	if e.ref.Chained {
		prev = e.chain.Sig(p.Round - 1)
		if !bytes.Equal(prev, p.GetPreviousSignature()) {
			return false, idx
		}
	}
	want := e.ref.PartialSig(idx, ep.dealt.Shares[idx].V, e.ref.Digest(p.Round, prev))
	return bytes.Equal(want, ps), idx
}

// ---- oracles on Put -----------------------------------------------------------

func (e *beaconEngine) onPut(n *bNode, seq int, round uint64, sig, prev []byte, first bool) {
	// C01: what is persisted is the chain's beacon
	if round >= 1 {
		if msg := e.chain.CheckBeacon(round, prev, sig); msg != "" {
			e.rec.Violate("C01", "stored-beacon-not-on-chain", "store", "node %s round %d: %s", n.addr, round, msg)
		}
	}
	if !first {
		return
	}
	// C04: with fewer than t fast or byzantine members, nobody holds round r early
	if round >= 1 && e.fastOrByz() < e.epochOf(round).t && e.fastOrByz() < e.sc.T {
		due := time.Unix(refTimeOfRound(round, e.sc.PeriodS, e.gen.Unix()), 0)
		if time.Now().Before(due.Add(-time.Microsecond)) {
			e.rec.Violate("C04", "beacon-before-its-time", "early", "node %s stored round %d at %s, %s before its time", n.addr, round, time.Now().UTC().Format(time.RFC3339Nano), due.Sub(time.Now()))
		}
	}
	if e.sc.ExpectNone && round >= 1 {
		e.rec.Violate("C03", "beacon-below-threshold", "k<t", "node %s stored round %d although fewer than %d members contribute", n.addr, round, e.sc.T)
	}
	if e.sc.NoSync && round >= 1 {
		// distinct valid contributors other than the node itself that were handed to it
		// before this Put; the node's own partial is inserted into its cache without
		// crossing the transport, so it is granted (an honest node's own partial is valid)
		n.mu.Lock()
		cnt := 1
		for idx, s := range n.contrib[round] {
			// s is the number of events recorded when the partial was handed over (taken before the handler
			// ran), seq the index of this Put's own event: s == seq means nothing was recorded in between
			if s <= seq && idx != n.sidx {
				cnt++
			}
		}
		n.mu.Unlock()
		if thr := e.epochOf(round).t; cnt < thr {
			e.rec.Violate("C03", "aggregated-below-threshold", "below", "node %s stored round %d with %d distinct valid contributors (own partial included) before the Put, threshold %d", n.addr, round, cnt, thr)
		}
		e.rec.Count("probe:c03_counted_puts", 1)
	}
}

func (e *beaconEngine) fastOrByz() int {
	c := 0
	for _, n := range e.nodes {
		if n.role == "byz" || n.fast {
			c++
		}
	}
	return c
}

// ---- node lifecycle -------------------------------------------------------------

func (e *beaconEngine) openStore(n *bNode) (chain.Store, error) {
	ctx := context.Background()
	if e.sch.Name == crypto.DefaultSchemeID {
		ctx = chain.SetPreviousRequiredOnContext(ctx)
	}
	switch e.backendOf(n) {
	case "memdb":
		return memdb.NewStore(e.sc.MemSize), nil
	case "bolt":
		return boltdb.NewBoltStore(boltdb.IsATest(ctx), e.lg, n.dir)
	default:
		return boltdb.NewBoltStore(ctx, e.lg, n.dir)
	}
}

func (e *beaconEngine) backendOf(n *bNode) string {
	if n.idx < len(e.sc.Backends) && e.sc.Backends[n.idx] != "" {
		return e.sc.Backends[n.idx]
	}
	return e.sc.Backend
}

// configAt returns the epoch whose group a node starting now must be given.
func (e *beaconEngine) configAt(now time.Time) *epoch {
	ep := e.epochs[0]
	for _, x := range e.epochs {
		if x.group.TransitionTime != 0 && now.Unix() >= x.group.TransitionTime {
			ep = x
		}
	}
	return ep
}

func (e *beaconEngine) startNode(n *bNode, catchup bool) error {
	base, err := e.openStore(n)
	if err != nil {
		return fmt.Errorf("open store: %w", err)
	}
	n.gen++
	st := &recStore{Store: base, n: n}
	if e.backendOf(n) == "memdb" && catchup {
		// what the daemon does for the in-memory back-end before it builds the handler
		// (storeCurrentFromPeerNetwork, exercised for real in E-daemon): start from the
		// newest beacon a live peer holds
		best := uint64(0)
		for _, o := range e.liveHonest() {
			if h, err := e.head(o); err == nil && h > best {
				best = h
			}
		}
		if best >= 1 {
			_ = st.Put(context.Background(), &common.Beacon{Round: best, Signature: e.chain.Sig(best), PreviousSig: e.chain.Prev(best)})
			e.rec.Count("probe:memdb_bootstrap", 1)
		}
	}
	client := &SimClient{W: e.w, Self: n.addr}
	client.TapPartial = func(to string, p *drand.PartialBeaconPacket) { e.onEmit(n, to, p) }
	ep := e.configAt(n.clock.Now())
	conf := &beacon.Config{
		Public: ep.group.Nodes[n.idx],
		Share:  &key.Share{DistKeyShare: kdkg.DistKeyShare{Share: ep.dealt.Shares[n.sidx], Commits: ep.dealt.Commits}, Scheme: e.sch},
		Group:  ep.group,
		Clock:  n.clock,
	}
	lg, _ := NewNodeLogger(e.rec, n.addr, dlog.DebugLevel, false, nil, func() {
		n.mu.Lock()
		n.dead = true
		n.mu.Unlock()
		e.rec.Ev("fatal", n.addr, "Fatal logged")
		e.rec.Count("probe:fatal", 1)
	})
	h, err := beacon.NewHandler(context.Background(), client, st, conf, lg, common.GetAppVersion())
	if err != nil {
		_ = base.Close()
		return fmt.Errorf("new handler: %w", err)
	}
	n.mu.Lock()
	n.h, n.base, n.store, n.client, n.up, n.since = h, base, st, client, true, time.Now()
	n.mu.Unlock()
	e.w.Register(n.addr, &beaconEP{n})
	e.rec.Ev("node_start", n.addr, "gen=%d catchup=%v", n.gen, catchup)
	// a reshare announced while the node was down (or before it restarted) is announced again
	if len(e.epochs) > 1 && ep != e.epochs[len(e.epochs)-1] {
		nx := e.epochs[len(e.epochs)-1]
		h.TransitionNewGroup(context.Background(), &key.Share{DistKeyShare: kdkg.DistKeyShare{Share: nx.dealt.Shares[n.sidx], Commits: nx.dealt.Commits}, Scheme: e.sch}, nx.group)
	}
	if catchup {
		h.Catchup(context.Background())
		return nil
	}
	return h.Start(context.Background())
}

func (e *beaconEngine) stopNode(n *bNode) {
	n.mu.Lock()
	h := n.h
	n.h, n.up = nil, false
	n.mu.Unlock()
	if h == nil {
		return
	}
	e.w.Unregister(n.addr)
	h.Stop(context.Background())
	e.rec.Ev("node_stop", n.addr, "")
	e.rec.Count("fault:stop", 1)
}

// onEmit is the C04 tap: every partial leaving an honest node.
func (e *beaconEngine) onEmit(n *bNode, to string, p *drand.PartialBeaconPacket) {
	now := n.clock.Now()
	due := refTimeOfRound(p.Round, e.sc.PeriodS, e.gen.Unix())
	e.rec.Count("probe:partials_emitted", 1)
	if now.Unix() < due {
		e.rec.Violate("C04", "partial-before-round-time", "emit", "node %s released a partial for round %d at its own time %d, scheduled time %d", n.addr, p.Round, now.Unix(), due)
	}
	// own contribution for C03
	if ok, idx := e.partialValid(p); ok && idx == n.sidx {
		seq := e.rec.Seq()
		n.mu.Lock()
		m := n.contrib[p.Round]
		if m == nil {
			m = map[int]int{}
			n.contrib[p.Round] = m
		}
		if _, ok := m[idx]; !ok {
			m[idx] = seq - 1
		}
		n.mu.Unlock()
	}
}

// ---- setup ---------------------------------------------------------------------

func seededPair(addr string, sch *crypto.Scheme, seed uint64) (*key.Pair, error) {
	k := sch.KeyGroup.Scalar().Pick(newSeededStream(seed))
	p := &key.Pair{Key: k, Public: &key.Identity{Key: sch.KeyGroup.Point().Mul(k, nil), Addr: addr, Scheme: sch}}
	return p, p.SelfSign()
}

func (e *beaconEngine) setup() error {
	sc := e.sc
	var err error
	if e.ref, err = NewRefScheme(sc.Scheme); err != nil {
		return err
	}
	if e.sch, err = crypto.SchemeFromName(sc.Scheme); err != nil {
		return err
	}
	e.period = time.Duration(sc.PeriodS) * time.Second
	e.start = time.Now()
	e.gen = time.Unix(e.start.Unix()+int64(sc.GenesisInS), 0)
	nshares := sc.N
	if sc.Hole > 0 {
		nshares = sc.N + 1
	}
	e.dealt = Deal(e.ref, sc.Seed^0xdea1, nshares, sc.T)
	var nodes []*key.Node
	sidx := make([]int, sc.N)
	for i := 0; i < sc.N; i++ {
		p, err := seededPair(fmt.Sprintf("node%d.sim:443", i), e.sch, H64(sc.Seed, "pair", i))
		if err != nil {
			return err
		}
		e.pairs = append(e.pairs, p)
		sidx[i] = i
		if sc.Hole > 0 && i >= sc.Hole-1 {
			sidx[i] = i + 1
		}
		nodes = append(nodes, &key.Node{Identity: p.Public, Index: uint32(sidx[i])})
	}
	e.group = &key.Group{
		Threshold: sc.T, Period: e.period, CatchupPeriod: time.Duration(sc.CatchupMs) * time.Millisecond,
		Scheme: e.sch, ID: "default", Nodes: nodes, GenesisTime: e.gen.Unix(),
		PublicKey: &key.DistPublic{Coefficients: e.dealt.Commits},
	}
	e.group.GenesisSeed = e.group.Hash()
	e.chain = NewRefChain(e.ref, e.dealt.Master, e.group.GenesisSeed)
	e.epochs = []*epoch{{from: 0, t: sc.T, dealt: e.dealt, group: e.group}}
	e.lg, _ = NewNodeLogger(e.rec, "shared", dlog.ErrorLevel, false, nil, nil)
	for i := 0; i < sc.N; i++ {
		skew := time.Duration(0)
		if i < len(sc.SkewMs) {
			skew = time.Duration(sc.SkewMs[i]) * time.Millisecond
		}
		n := &bNode{e: e, idx: i, sidx: sidx[i], addr: nodes[i].Address(), role: sc.Roles[i], clock: NewSimClock(skew, 7*(i+1)),
			dir: filepath.Join(e.dir, fmt.Sprintf("n%d", i)), first: map[uint64]int{}, contrib: map[uint64]map[int]int{}}
		n.fast = skew > 0
		if err := os.MkdirAll(n.dir, 0o755); err != nil {
			return err
		}
		e.nodes = append(e.nodes, n)
	}
	simrt.PermHook = func(k int) []int {
		// peer order of a sync: a scenario decision keyed by virtual time
		r := NewRng(H64(sc.Seed, "perm", k, time.Now().UnixNano()))
		return r.Perm(k)
	}
	e.w.SetRefuseSync(sc.NoSync)
	if sc.StallSync > 0 {
		e.w.StreamStallAfter = func(from, to, method string) (int, time.Duration) {
			if method != MSyncChain {
				return -1, 0
			}
			// a fault like the others: none after the script's last fault has ended (the liveness
			// bounds are about the healed phase)
			if !e.start.IsZero() && time.Since(e.start) >= time.Duration(sc.HealAtMs)*time.Millisecond {
				return -1, 0
			}
			if H64(sc.Seed, "stall", from, to, time.Now().UnixNano())%3 == 0 {
				return sc.StallSync, 0
			}
			return -1, 0
		}
	}
	return nil
}

func (e *beaconEngine) honest() []*bNode {
	var hs []*bNode
	for _, n := range e.nodes {
		if n.role == "honest" {
			hs = append(hs, n)
		}
	}
	return hs
}

func (e *beaconEngine) addrs(idx []int) []string {
	var out []string
	for _, i := range idx {
		if i >= 0 && i < len(e.nodes) {
			out = append(out, e.nodes[i].addr)
		}
	}
	return out
}

// ---- script ---------------------------------------------------------------------

func (e *beaconEngine) apply(a Act) {
	var n *bNode
	if a.Node >= 0 && a.Node < len(e.nodes) {
		n = e.nodes[a.Node]
	}
	e.rec.Ev("act", "", "%s node=%d a=%d b=%d s=%s", a.Kind, a.Node, a.A, a.B, a.S)
	switch a.Kind {
	case "partition":
		in := map[int]bool{}
		for _, i := range a.Nodes {
			in[i] = true
		}
		var rest []int
		for i := range e.nodes {
			if !in[i] {
				rest = append(rest, i)
			}
		}
		e.w.Partition(e.addrs(a.Nodes), e.addrs(rest))
	case "cut":
		if n != nil && int(a.A) < len(e.nodes) {
			e.w.CutOneWay(n.addr, e.nodes[a.A].addr)
		}
	case "heal":
		e.w.Heal()
		e.w.SetFaults(false)
	case "faults_on":
		e.w.SetFaults(true)
	case "faults_off":
		e.w.SetFaults(false)
	case "slow":
		if n != nil {
			e.w.SetSlow(n.addr, time.Duration(a.A)*time.Millisecond)
		}
	case "stop":
		if n != nil && n.role == "honest" {
			e.stopNode(n)
		}
	case "start":
		if n != nil && n.role == "honest" && !n.up && !n.dead {
			catchup := n.clock.Now().Unix() >= e.gen.Unix()
			if err := e.startNode(n, catchup); err != nil {
				e.rec.Ev("start_failed", n.addr, "%v", err)
				e.rec.Violate("C05", "restart-failed", "start", "node %s could not be restarted: %v", n.addr, err)
			}
		}
	case "jump":
		if n != nil {
			n.clock.Jump(time.Duration(a.A) * time.Millisecond)
			n.fast = true
			e.rec.Count("fault:clock_jump", 1)
		}
	case "stall":
		if n != nil {
			d := time.Duration(a.A) * time.Millisecond
			n.clock.Stall(d)
			e.w.StallNode(n.addr, d)
			e.rec.Count("fault:stall", 1)
		}
	case "store_err":
		if n != nil {
			n.mu.Lock()
			n.storeFailN += int(a.A)
			n.mu.Unlock()
		}
	case "slow_store":
		if n != nil {
			n.mu.Lock()
			n.storeSlow, n.storeSlowTo = time.Duration(a.A)*time.Millisecond, time.Now().Add(time.Duration(a.B)*time.Millisecond)
			n.mu.Unlock()
		}
	case "reshare":
		e.announceReshare()
	case "byz":
		e.byzAct(a)
	case "observe":
		if n != nil {
			go e.observe(n, uint64(a.A), int(a.B))
		}
	}
}

// announceReshare deals the same secret again with the new threshold and tells
// every running honest node to switch at the transition round.
func (e *beaconEngine) announceReshare() {
	rs := e.sc.Reshare
	if rs == nil || len(e.epochs) > 1 {
		return
	}
	nshares := len(e.dealt.Shares)
	nd := Redeal(e.ref, e.sc.Seed^0x4e5a, nshares, rs.NewT, e.dealt.Master)
	g := *e.group
	g.Threshold = rs.NewT
	g.TransitionTime = refTimeOfRound(rs.AtRound, e.sc.PeriodS, e.gen.Unix())
	g.PublicKey = &key.DistPublic{Coefficients: nd.Commits}
	if rs.Drop > 0 && rs.Drop <= len(e.nodes) {
		// a proposed member that did not make it into the new group: its index is a hole, yet it holds a share
		gone := uint32(e.nodes[rs.Drop-1].sidx)
		var kept []*key.Node
		for _, nd := range g.Nodes {
			if nd.Index != gone {
				kept = append(kept, nd)
			}
		}
		g.Nodes = kept
		e.rec.Count("fault:member_dropped_by_reshare", 1)
	}
	ep := &epoch{from: rs.AtRound, t: rs.NewT, dealt: nd, group: &g}
	e.epochs = append(e.epochs, ep)
	e.rec.Count("fault:reshare", 1)
	for _, n := range e.liveHonest() {
		n.mu.Lock()
		h := n.h
		n.mu.Unlock()
		h.TransitionNewGroup(context.Background(), &key.Share{DistKeyShare: kdkg.DistKeyShare{Share: nd.Shares[n.sidx], Commits: nd.Commits}, Scheme: e.sch}, &g)
	}
}

// observe opens a sync stream to node n as an outside party and checks that
// every item served is the chain's beacon, in increasing order (C01, C11 lite).
func (e *beaconEngine) observe(n *bNode, from uint64, max int) {
	ctx, cancel := context.WithTimeout(context.Background(), time.Duration(max+2)*e.period)
	defer cancel()
	c := &SimClient{W: e.w, Self: fmt.Sprintf("observer%d.sim:1", from)}
	ch, err := c.SyncChain(ctx, e.pairs[n.idx].Public, &drand.SyncRequest{FromRound: from, Metadata: &drand.Metadata{BeaconID: "default"}})
	if err != nil {
		return
	}
	last := uint64(0)
	got := 0
	for b := range ch {
		got++
		e.served++
		if msg := e.chain.CheckBeacon(b.Round, b.PreviousSignature, b.Signature); msg != "" {
			e.rec.Violate("C01", "served-beacon-not-on-chain", "sync", "node %s served on SyncChain: %s", n.addr, msg)
		}
		if from > 0 && got == 1 && b.Round != from {
			e.rec.Violate("C11", "stream-first-round", "first", "stream from %d on %s started with round %d", from, n.addr, b.Round)
		}
		if got > 1 && b.Round != last+1 {
			e.rec.Violate("C11", "stream-not-consecutive", "gap", "stream from %d on %s delivered round %d after %d", from, n.addr, b.Round, last)
		}
		last = b.Round
		if got >= max {
			break
		}
	}
	e.rec.Count("probe:observed_items", got)
}

// ---- byzantine members -------------------------------------------------------------

func (e *beaconEngine) byzPartial(idx int, round uint64, prev []byte) []byte {
	return e.ref.PartialSig(idx, e.epochOf(round).dealt.Shares[idx].V, e.ref.Digest(round, prev))
}

func (e *beaconEngine) byzAct(a Act) {
	idx := a.Node
	if idx < 0 || idx >= len(e.nodes) || e.nodes[idx].role != "byz" {
		return
	}
	self := e.nodes[idx].addr
	idx = e.nodes[idx].sidx // from here on: the DKG index the member signs with
	cur := refCurrentRound(time.Now().Unix(), e.sc.PeriodS, e.gen.Unix())
	round := uint64(int64(cur) + a.A)
	if int64(cur)+a.A < 1 {
		round = 1
	}
	var prev []byte
	if e.ref.Chained {
		prev = e.chain.Sig(round - 1)
	}
	mk := func(target *bNode) []*drand.PartialBeaconPacket {
		pk := func(r uint64, pv, ps []byte) *drand.PartialBeaconPacket {
			return &drand.PartialBeaconPacket{Round: r, PreviousSignature: pv, PartialSig: ps, Metadata: &drand.Metadata{BeaconID: "default"}}
		}
		good := e.byzPartial(idx, round, prev)
		switch a.S {
		case "valid":
			return []*drand.PartialBeaconPacket{pk(round, prev, good)}
		case "dup":
			return []*drand.PartialBeaconPacket{pk(round, prev, good), pk(round, prev, good), pk(round, prev, good)}
		case "wrong_round": // signature made for another round
			return []*drand.PartialBeaconPacket{pk(round, prev, e.byzPartial(idx, round+1, prev))}
		case "wrong_prev":
			bad := sha256.Sum256(append([]byte("bad"), prev...))
			pv := append(bad[:], bad[:]...)
			pv = append(pv, bad[:]...)
			return []*drand.PartialBeaconPacket{pk(round, pv, e.byzPartial(idx, round, pv))}
		case "random_scalar":
			s := e.ref.KeyGroup.Scalar().Pick(newSeededStream(H64(e.sc.Seed, "rs", round)))
			return []*drand.PartialBeaconPacket{pk(round, prev, e.ref.PartialSig(idx, s, e.ref.Digest(round, prev)))}
		case "other_index": // own signature under another member's index
			other := e.nodes[(a.Node+1)%e.sc.N].sidx
			ps := append([]byte(nil), good...)
			binary.BigEndian.PutUint16(ps, uint16(other))
			return []*drand.PartialBeaconPacket{pk(round, prev, ps)}
		case "victim_index": // claims to be the receiver itself
			ps := append([]byte(nil), good...)
			binary.BigEndian.PutUint16(ps, uint16(target.sidx))
			return []*drand.PartialBeaconPacket{pk(round, prev, ps)}
		case "evicted_member": // a valid share of the polynomial whose index is not in the group
			if e.sc.Hole > 0 {
				return []*drand.PartialBeaconPacket{pk(round, prev, e.byzPartial(e.sc.Hole-1, round, prev))}
			}
			return nil
		case "old_epoch": // a partial made with the share of the previous epoch
			if len(e.epochs) > 1 && round >= e.epochs[1].from {
				return []*drand.PartialBeaconPacket{pk(round, prev, e.ref.PartialSig(idx, e.epochs[0].dealt.Shares[idx].V, e.ref.Digest(round, prev)))}
			}
			return nil
		case "nonmember_index":
			ps := append([]byte(nil), good...)
			binary.BigEndian.PutUint16(ps, uint16(e.sc.N+3))
			return []*drand.PartialBeaconPacket{pk(round, prev, ps)}
		case "truncated":
			return []*drand.PartialBeaconPacket{pk(round, prev, good[:len(good)/2]), pk(round, prev, good[:1]), pk(round, prev, nil)}
		case "bitflip":
			ps := append([]byte(nil), good...)
			ps[len(ps)-1] ^= 1
			return []*drand.PartialBeaconPacket{pk(round, prev, ps)}
		case "replay_old":
			if round > 2 {
				r := round - 2
				var pv []byte
				if e.ref.Chained {
					pv = e.chain.Sig(r - 1)
				}
				return []*drand.PartialBeaconPacket{pk(r, pv, e.byzPartial(idx, r, pv))}
			}
			return nil
		case "future": // correctly signed partials for rounds ahead of time
			var out []*drand.PartialBeaconPacket
			for k := uint64(2); k <= 4; k++ {
				r := round + k
				var pv []byte
				if e.ref.Chained {
					pv = e.chain.Sig(r - 1)
				}
				out = append(out, pk(r, pv, e.byzPartial(idx, r, pv)))
			}
			return out
		case "flood": // many distinct (round, previous signature) pairs, validly signed
			var out []*drand.PartialBeaconPacket
			for k := 0; k < int(a.B); k++ {
				r := round + uint64(k%2)
				x := sha256.Sum256([]byte(fmt.Sprintf("flood%d-%d-%d", idx, round, k)))
				pv := append(x[:], x[:]...)
				pv = append(pv, x[:]...)
				if !e.ref.Chained {
					// unchained: previous signature is not signed but is part of the cache key
					out = append(out, pk(r, pv, e.byzPartial(idx, r, nil)))
				} else {
					out = append(out, pk(r, pv, e.byzPartial(idx, r, pv)))
				}
			}
			return out
		}
		return nil
	}
	e.rec.Count("adv:"+a.S, 1)
	for _, t := range e.honest() {
		t := t
		for i, p := range mk(t) {
			p := p
			go func(i int) {
				time.Sleep(time.Duration(i) * 137 * time.Microsecond)
				c := &SimClient{W: e.w, Self: self}
				_ = c.PartialBeacon(context.Background(), e.pairs[t.idx].Public, p)
			}(i)
		}
	}
}

// byzEP: a byzantine member as a server: swallows partials, lies on SyncChain.
type byzEP struct {
	e   *beaconEngine
	idx int
}

func (b *byzEP) Unary(ctx context.Context, method string, req []byte) (proto.Message, error) {
	switch method {
	case MPartial, MHealth:
		return new(drand.Empty), nil
	}
	return nil, unimplemented(method)
}

func (b *byzEP) Stream(ctx context.Context, method string, req []byte, send func(proto.Message) error) error {
	e := b.e
	if method != MSyncChain {
		return unimplemented(method)
	}
	r := new(drand.SyncRequest)
	if err := proto.Unmarshal(req, r); err != nil {
		return err
	}
	e.rec.Count("adv:sync_"+e.sc.SyncLies, 1)
	from := r.FromRound
	if from == 0 {
		from = 1
	}
	cur := refCurrentRound(time.Now().Unix(), e.sc.PeriodS, e.gen.Unix())
	mk := func(round uint64) *drand.BeaconPacket {
		return &drand.BeaconPacket{Round: round, Signature: e.chain.Sig(round), PreviousSignature: e.chain.Prev(round), Metadata: &drand.Metadata{BeaconID: "default"}}
	}
	switch e.sc.SyncLies {
	case "bad_sig":
		p := mk(from)
		p.Signature = append([]byte(nil), p.Signature...)
		p.Signature[len(p.Signature)-1] ^= 1
		return send(p)
	case "wrong_round": // a valid beacon of another round
		if from+1 < cur {
			return send(mk(from + 1))
		}
		return nil
	case "relabel": // valid signature of round from+1 labelled as round from
		p := mk(from + 1)
		p.Round = from
		return send(p)
	case "foreign_id":
		p := mk(from)
		p.Metadata.BeaconID = "other"
		return send(p)
	case "out_of_order":
		if from+2 < cur {
			_ = send(mk(from + 1))
			return send(mk(from))
		}
		return nil
	case "stall":
		if from < cur {
			_ = send(mk(from))
		}
		<-ctx.Done()
		return ctx.Err()
	case "close_early":
		if from < cur {
			return send(mk(from))
		}
		return nil
	case "garbage":
		return send(&drand.BeaconPacket{Round: from, Signature: []byte{1, 2, 3}, Metadata: &drand.Metadata{BeaconID: "default"}})
	case "future_unsigned": // a round whose time has not come, honestly signed bytes cannot exist: random bytes
		return send(&drand.BeaconPacket{Round: cur + 5, Signature: bytes.Repeat([]byte{7}, 96), Metadata: &drand.Metadata{BeaconID: "default"}})
	}
	<-ctx.Done()
	return nil
}

// ---- run ------------------------------------------------------------------------

type RunResult struct {
	Seed        uint64         `json:"seed"`
	Engine      string         `json:"engine"`
	Prop        string         `json:"prop"`
	Violations  []Violation    `json:"violations,omitempty"`
	Counters    map[string]int `json:"counters"`
	LogHash     string         `json:"log_hash"`
	Events      int            `json:"events"`
	Sig         string         `json:"sig"`
	VirtualMs   int64          `json:"virtual_ms"`
	WallMs      int64          `json:"wall_ms"`
	NonTrivial  bool           `json:"nontrivial"`
	HarnessErr  string         `json:"harness_err,omitempty"`
	BubblePanic string         `json:"bubble_panic,omitempty"`
	Summary     string         `json:"summary,omitempty"`
	Replays     []string       `json:"replays,omitempty"`
	MultiTx     []int          `json:"multi_tx,omitempty"`
	OpKinds     []string       `json:"op_kinds,omitempty"`
	FileSteps   []int          `json:"file_steps,omitempty"`
}

func tmpRoot() string {
	if st, err := os.Stat("/dev/shm"); err == nil && st.IsDir() {
		return "/dev/shm"
	}
	return os.TempDir()
}

// RunBeacon executes one scenario in one bubble.
func RunBeacon(t *testing.T, sc *BeaconScenario, dump io.Writer) (res RunResult) {
	wall := time.Now()
	res = RunResult{Seed: sc.Seed, Engine: "beacon", Prop: sc.Prop}
	dir, err := os.MkdirTemp(tmpRoot(), "zv-beacon-")
	if err != nil {
		res.HarnessErr = err.Error()
		return
	}
	defer os.RemoveAll(dir)
	rec := NewRecorder(true)
	var e *beaconEngine
	func() {
		defer func() {
			if p := recover(); p != nil {
				res.BubblePanic = fmt.Sprint(p)
			}
		}()
		synctest.Test(t, func(t *testing.T) {
			e = &beaconEngine{sc: sc, t: t, rec: rec, dir: dir}
			if sc.Prop == "C10" {
				// C10 is C01 / C02 / C05 restricted to the sync path: in its scenarios (a node that
				// was down catches up from mixed peers) the same oracles decide it
				rec.Alias("C01", "stored-beacon-not-on-chain", "C10", "synced-beacon-not-on-chain")
				rec.Alias("C02", "put-skips-round", "C10", "store-written-out-of-chain-order")
				rec.Alias("C02", "gap-in-stored-chain", "C10", "gap-left-by-sync")
				rec.Alias("C02", "round-rewritten", "C10", "sync-rewrote-a-round")
				rec.Alias("C05", "not-caught-up-after-heal", "C10", "sync-did-not-converge")
			}
			e.w = NewWorld(sc.Seed, rec, sc.Net)
			InstallYields(sc.Yield, rec)
			defer UninstallYields()
			if err := e.setup(); err != nil {
				res.HarnessErr = "setup: " + err.Error()
				return
			}
			e.body(&res)
		})
	}()
	UninstallYields()
	res.Violations = rec.Violations()
	res.Counters = rec.Counters()
	res.LogHash, res.Events = rec.LogHash()
	res.Sig = rec.Signature()
	res.WallMs = time.Since(wall).Milliseconds()
	if dump != nil {
		if f, ok := dump.(*os.File); ok {
			rec.Dump(f)
		}
	}
	// "deadlock: main bubble goroutine has exited but blocked goroutines remain"
	// is the normal end of a bubble with parked zombies; anything else is the harness's problem
	if res.BubblePanic != "" && !isLeftoverPanic(res.BubblePanic) {
		res.HarnessErr = "panic: " + res.BubblePanic
	}
	return
}

func isLeftoverPanic(s string) bool {
	return bytes.Contains([]byte(s), []byte("blocked goroutines remain")) || bytes.Contains([]byte(s), []byte("deadlock"))
}

func (e *beaconEngine) body(res *RunResult) {
	sc := e.sc
	for _, n := range e.nodes {
		switch n.role {
		case "honest":
			if err := e.startNode(n, n.clock.Now().Unix() >= e.gen.Unix()); err != nil {
				res.HarnessErr = "start: " + err.Error()
				return
			}
		case "byz":
			e.w.Register(n.addr, &byzEP{e, n.idx})
		}
	}
	script := append([]Act(nil), sc.Script...)
	sort.SliceStable(script, func(i, j int) bool { return script[i].AtMs < script[j].AtMs })
	total := time.Duration(sc.GenesisInS)*time.Second + time.Duration(sc.Rounds)*e.period
	for _, a := range script {
		at := e.start.Add(time.Duration(a.AtMs) * time.Millisecond)
		if d := time.Until(at); d > 0 {
			time.Sleep(d)
		}
		synctest.Wait()
		e.apply(a)
	}
	// healed phase
	if d := time.Until(e.start.Add(time.Duration(sc.HealAtMs) * time.Millisecond)); d > 0 {
		time.Sleep(d)
	}
	synctest.Wait()
	e.w.Heal()
	e.w.SetFaults(false)
	healAt := time.Now()
	gap := e.gapNow()
	e.rec.Ev("healed", "", "gap=%d", gap)
	if d := time.Until(e.start.Add(total)); d > 0 {
		time.Sleep(d)
	}
	// end of run: land between two ticks so that "due" is unambiguous
	time.Sleep(e.period/2 + 13*time.Millisecond)
	synctest.Wait()
	res.VirtualMs = time.Since(e.start).Milliseconds()
	e.finalChecks(healAt, gap, res)
	for _, n := range e.nodes {
		if n.role == "honest" {
			e.stopNode(n)
		}
	}
	time.Sleep(20 * time.Second) // let in-flight calls and streams drain
	synctest.Wait()
}

func (e *beaconEngine) liveHonest() []*bNode {
	var out []*bNode
	for _, n := range e.nodes {
		n.mu.Lock()
		ok := n.role == "honest" && n.up && !n.dead
		n.mu.Unlock()
		if ok {
			out = append(out, n)
		}
	}
	return out
}

func (e *beaconEngine) head(n *bNode) (uint64, error) {
	n.mu.Lock()
	h := n.h
	n.mu.Unlock()
	if h == nil {
		return 0, fmt.Errorf("down")
	}
	b, err := h.Store().Last(context.Background())
	if err != nil {
		return 0, err
	}
	return b.Round, nil
}

func (e *beaconEngine) gapNow() uint64 {
	due := refCurrentRound(time.Now().Unix(), e.sc.PeriodS, e.gen.Unix())
	best := uint64(0)
	for _, n := range e.liveHonest() {
		if h, err := e.head(n); err == nil && h > best {
			best = h
		}
	}
	if due > best {
		return due - best
	}
	return 0
}

func (e *beaconEngine) finalChecks(healAt time.Time, gap uint64, res *RunResult) {
	sc := e.sc
	live := e.liveHonest()
	due := refCurrentRound(time.Now().Unix(), sc.PeriodS, e.gen.Unix())
	heads := map[string]uint64{}
	// C02 (b): cursor scan of every live store; (d): cross-node equality
	type held struct {
		sig, prev []byte
	}
	all := map[uint64]map[string]held{}
	for _, n := range live {
		n.mu.Lock()
		h := n.h
		n.mu.Unlock()
		var rounds []uint64
		ctx := context.Background()
		if e.sch.Name == crypto.DefaultSchemeID {
			ctx = chain.SetPreviousRequiredOnContext(ctx)
		}
		err := h.Store().Cursor(ctx, func(ctx context.Context, c chain.Cursor) error {
			for b, err := c.First(ctx); b != nil; b, err = c.Next(ctx) {
				if err != nil {
					return err
				}
				rounds = append(rounds, b.Round)
				if all[b.Round] == nil {
					all[b.Round] = map[string]held{}
				}
				all[b.Round][n.addr] = held{append([]byte(nil), b.Signature...), append([]byte(nil), b.PreviousSig...)}
				if b.Round >= 1 {
					if msg := e.chain.CheckBeacon(b.Round, b.PreviousSig, b.Signature); msg != "" && (e.backendOf(n) != "memdb") {
						e.rec.Violate("C02", "scan-beacon-not-on-chain", "scan", "node %s: %s", n.addr, msg)
					}
				}
			}
			return nil
		})
		if err != nil {
			e.rec.Ev("scan_err", n.addr, "%v", err)
		}
		if e.backendOf(n) == "memdb" && len(rounds) > 1 && rounds[0] == 0 && rounds[1] != 1 {
			rounds = rounds[1:] // genesis plus the bootstrapped window
		}
		if len(rounds) > 0 {
			heads[n.addr] = rounds[len(rounds)-1]
			first := rounds[0]
			if e.backendOf(n) != "memdb" && first != 0 {
				e.rec.Violate("C02", "chain-does-not-start-at-0", "scan", "node %s: first stored round is %d", n.addr, first)
			}
			for i := 1; i < len(rounds); i++ {
				if rounds[i] != rounds[i-1]+1 {
					e.rec.Violate("C02", "gap-in-stored-chain", "scan", "node %s: round %d follows %d in the store", n.addr, rounds[i], rounds[i-1])
					break
				}
			}
		}
	}
	for r, m := range all {
		var ref *held
		var who string
		for a, h := range m {
			h := h
			if ref == nil {
				ref, who = &h, a
				continue
			}
			if !bytes.Equal(ref.sig, h.sig) {
				e.rec.Violate("C02", "nodes-disagree", "fork", "round %d differs between %s and %s", r, who, a)
			}
			if !bytes.Equal(ref.prev, h.prev) && r > 0 {
				e.rec.Violate("C02", "nodes-disagree", "prev", "round %d: the previous signature held by %s and %s differs (%x.. vs %x..)", r, who, a, head(ref.prev), head(h.prev))
			}
		}
	}
	// C02 (a): per-node Put history
	for _, n := range e.nodes {
		if n.role != "honest" {
			continue
		}
		n.mu.Lock()
		puts := append([]putRec(nil), n.puts...)
		n.mu.Unlock()
		seen := map[uint64][]byte{}
		var last uint64
		haveLast := false
		for _, p := range puts {
			if p.err != nil {
				continue
			}
			if old, ok := seen[p.round]; ok {
				if !bytes.Equal(old, p.sig) {
					e.rec.Violate("C02", "round-rewritten", "rewrite", "node %s wrote round %d twice with different signatures", n.addr, p.round)
				}
				if p.round != 0 {
					e.rec.Count("probe:same_round_put_twice", 1)
				}
				continue
			}
			seen[p.round] = p.sig
			if haveLast && p.round != 0 && p.round != last+1 && e.backendOf(n) != "memdb" {
				e.rec.Violate("C02", "put-skips-round", "skip", "node %s wrote round %d after round %d", n.addr, p.round, last)
			}
			if p.round != 0 || !haveLast {
				if p.round >= last {
					last = p.round
				}
				haveLast = true
			}
		}
	}
	// C05: liveness after heal
	if len(live) >= sc.T && !sc.ExpectNone {
		c := time.Duration(sc.CatchupMs)*time.Millisecond + 3*e.lmax()
		bound := 4*e.period + time.Duration(3*(gap+4))*c
		healed := time.Since(healAt)
		if healed >= bound {
			for _, n := range live {
				if time.Since(n.since) < bound {
					continue
				}
				h := heads[n.addr]
				// the round that is due right now may still be in the making; once its time is further back than one
				// catch-up step, the clock differences of the run and some slack, it has to be there as well
				need := due - 1
				slack := c + 300*time.Millisecond
				for _, ms := range sc.SkewMs {
					if d := time.Duration(ms) * time.Millisecond; d > 0 && d+c+300*time.Millisecond > slack {
						slack = d + c + 300*time.Millisecond
					} else if d < 0 && -d+c+300*time.Millisecond > slack {
						slack = -d + c + 300*time.Millisecond
					}
				}
				if dueAt := time.Unix(refTimeOfRound(due, sc.PeriodS, e.gen.Unix()), 0); due >= 1 && time.Since(dueAt) > slack {
					need = due
				}
				if h < need {
					facts := "behind"
					if len(live) == e.liveThreshold() {
						// no spare member: the chain only moves when every live honest member contributes
						facts = "behind-with-every-live-honest-member-needed"
					}
					e.rec.Violate("C05", "not-caught-up-after-heal", facts, "node %s has head %d, due round %d, %s after heal (gap at heal %d, bound %s; %d live honest members, threshold %d)", n.addr, h, due, healed, gap, bound, len(live), e.liveThreshold())
				}
			}
			e.rec.Count("probe:c05_checked", 1)
		} else {
			e.rec.Count("probe:c05_healed_phase_too_short", 1)
		}
	}
	if sc.ExpectNone {
		e.rec.Count("probe:expect_none_runs", 1)
	}
	minHead := uint64(1 << 62)
	for _, h := range heads {
		if h < minHead {
			minHead = h
		}
	}
	if len(heads) == 0 {
		minHead = 0
	}
	res.Summary = fmt.Sprintf("due=%d live=%d minhead=%d gap_at_heal=%d served=%d", due, len(live), minHead, gap, e.served)
	cn := e.rec.Counters()
	faults := 0
	for k, v := range cn {
		if len(k) > 6 && (k[:6] == "fault:" || k[:4] == "adv:") {
			faults += v
		}
	}
	res.NonTrivial = faults > 0 && minHead >= 3
	if sc.ExpectNone {
		res.NonTrivial = cn["probe:partials_emitted"] > 0
	}
}

// liveThreshold is the threshold in force at the end of the run (the resharing's, once announced).
func (e *beaconEngine) liveThreshold() int {
	if rp := e.sc.Reshare; rp != nil && rp.NewT > 0 {
		return rp.NewT
	}
	return e.sc.T
}

func (e *beaconEngine) lmax() time.Duration {
	p := e.sc.Net
	return time.Duration(p.BaseUs+p.JitterUs)*time.Microsecond + time.Microsecond
}
